#!/bin/bash
# Offline setup: warm the Go build cache for the harness (everything needed is already on disk).
export GOFLAGS=-mod=mod GOPROXY=off GOSUMDB=off GOTOOLCHAIN=local
cd "$(dirname "$0")"
chmod +x check 2>/dev/null
mkdir -p evidence
VERIF_WARM=1 python3 driver/warm.py || true
exit 0
