#!/bin/bash
# usage: stress.sh <seed> [par]  -- runs every property's quick check at once (heavy load) and prints anything that is not OK
seed=${1:-1}; par=${2:-20}
cd /verif
tmp=$(mktemp -d /var/tmp/verif-stress-XXXXXX)
n=0
for i in $(seq -w 1 20); do
  id=C$i
  ( VERIF_SEED=$seed ./check $id quick > $tmp/$id.out 2>&1; echo $? > $tmp/$id.rc ) &
  n=$((n+1))
  if [ $((n % par)) -eq 0 ]; then wait; fi
done
wait
for i in $(seq -w 1 20); do
  id=C$i; rc=$(cat $tmp/$id.rc)
  echo "stress seed=$seed $id rc=$rc $(grep -E '^(OK|VIOLATION|INCONCLUSIVE)' $tmp/$id.out | tail -1 | cut -c1-200)"
  if [ "$rc" != "0" ]; then grep -E "VIOLATION|key=|INCONCLUSIVE|infra|driver error" $tmp/$id.out | head -5 | cut -c1-400; fi
done
rm -rf $tmp
