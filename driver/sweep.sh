#!/bin/bash
# usage: sweep.sh <tier> <seed>...   -- runs every property's check on /repo for each seed; prints anything that is not OK
tier=$1; shift
cd /verif
for seed in "$@"; do
  for i in $(seq -w 1 20); do
    id=C$i
    out=$(VERIF_SEED=$seed ./check $id $tier 2>&1); rc=$?
    last=$(echo "$out" | grep -E "^(OK|VIOLATION|INCONCLUSIVE)" | tail -1)
    echo "seed=$seed $id rc=$rc $last"
    if [ $rc -ne 0 ]; then echo "$out" | grep -E "VIOLATION|key=|INCONCLUSIVE|infra" | head -6; fi
  done
done
