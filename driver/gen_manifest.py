#!/usr/bin/env python3
"""Regenerates /verif/MANIFEST.json from driver/jobs.py (claimed checks) and properties.jsonl."""
import json, os, sys
VERIF = os.path.dirname(os.path.dirname(os.path.abspath(__file__)))
sys.path.insert(0, os.path.join(VERIF, "driver"))
from jobs import PROPS, NOT_APPLICABLE

ids = [json.loads(l)["id"] for l in open(os.path.join(VERIF, "properties.jsonl"))]
checks = []
for pid in ids:
    if pid not in PROPS or not PROPS[pid].get("claimed", True):
        continue
    p = PROPS[pid]
    checks.append({
        "property_id": pid,
        "quick_cmd": "./check %s quick" % pid,
        "thorough_cmd": "./check %s thorough" % pid,
        "evidence_file": "/verif/evidence/%s.json" % pid,
        "replay_cmd_template": "./check %s quick --replay {path}" % pid,
        "engine": "rapid+gofuzz-driver",
        "level_claimed": {"category": p.get("level", "exploration"), "text": p["level_text"],
                          "design_ref": "DESIGN.md §5 " + pid},
        "level_note": p["level_note"],
        "technique": p["technique"],
    })
na = [{"property_id": pid, "reason": NOT_APPLICABLE.get(pid, "check not built yet in this session; no claim is made")}
      for pid in ids if pid not in [c["property_id"] for c in checks]]
man = {
    "version": 1,
    "setup_cmd": "./setup.sh",
    "hooks": {
        "guard": "verif",
        "enable": "harness files under /verif/harness are injected into /repo packages at build time with go test -overlay/-modfile and -tags verif; no hook source is committed to /repo",
        "baseline_off_cmd": "cd /repo && go build ./... && go test -vet=off -count=1 ./...",
        "source_commits": [],
        "add_only": True,
    },
    "engines": [{"name": "rapid+gofuzz-driver", "path": "/verif/check",
                 "serves_properties": [c["property_id"] for c in checks],
                 "kind_free_text": "python driver that overlays in-package Go property tests (pgregory.net/rapid v1.3.0 generators/state machines, bounded exhaustive enumeration, crash/fault enumeration, go native fuzzing in the thorough tier) onto /repo's working tree and merges their reports into evidence"}],
    "checks": checks,
    "notes": "exit 0 = held on everything explored; exit 1 + VIOLATION line = violation not listed in known-findings.json; exit 2 = inconclusive (build failure, timeout, worker death). VERIF_SEED selects the rapid seed (0 is remapped).",
    "not_applicable": na,
}
json.dump(man, open(os.path.join(VERIF, "MANIFEST.json"), "w"), indent=1)
print("claimed:", [c["property_id"] for c in checks])
