#!/bin/bash
# Rewrites every evidence file from a quick run (VERIF_SEED=1, as the acceptance run does) against /repo itself and validates them.
cd /verif
[ -z "$(git -C /repo status --porcelain)" ] || { echo "/repo is not clean"; exit 2; }
bad=0
for i in $(seq -w 1 20); do
  id=C$i
  out=$(VERIF_SEED=1 VERIF_TIER=quick ./check $id quick 2>&1); rc=$?
  echo "$id rc=$rc $(echo "$out" | grep -E '^(OK|VIOLATION|INCONCLUSIVE)' | tail -1)"
  [ $rc -eq 0 ] || bad=1
done
python3-vt - <<'PY'
import json,jsonschema,glob
es=json.load(open('/root/.vp/EVIDENCE.schema.json'))
for f in sorted(glob.glob('/verif/evidence/C*.json')):
    jsonschema.validate(json.load(open(f)),es)
jsonschema.validate(json.load(open('/verif/MANIFEST.json')),json.load(open('/root/.vp/MANIFEST.schema.json')))
print("schemas ok")
PY
exit $bad
