#!/usr/bin/env python3
"""Compiles every harness package once so that later checks only pay incremental builds."""
import os, sys, subprocess, shutil, importlib.util
VERIF = os.path.dirname(os.path.dirname(os.path.abspath(__file__)))
spec = importlib.util.spec_from_loader("check", loader=None)
src = open(os.path.join(VERIF, "check")).read()
mod = type(sys)("check"); mod.__file__ = os.path.join(VERIF, "check")
exec(compile(src.replace('if __name__ == "__main__":\n    main()', ''), mod.__file__, "exec"), mod.__dict__)
w = mod.make_workdir()
try:
    pkgs = sorted({j["pkg"] for p in mod.PROPS.values() for j in p["jobs"]})
    for pkg in pkgs:
        try:
            mod.build(w, pkg)
        except SystemExit:
            print("warm: build failed for", pkg)
finally:
    shutil.rmtree(w, ignore_errors=True)
