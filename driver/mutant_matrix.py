#!/usr/bin/env python3
"""Runs every seeded change under /verif/seeded against the check of its property (quick, then
thorough if quick misses it) in a scratch clone of /repo, and writes /verif/mutants/RESULTS.md
plus the detected_by field of each meta.json.  usage: mutant_matrix.py [ID-V ...]"""
import json, os, re, subprocess, sys, shutil, time
VERIF = os.path.dirname(os.path.dirname(os.path.abspath(__file__)))
SCRATCH = os.environ.get("MUTANT_REPO", "/tmp/mrepo")
EXTRA = {  # additional checks worth trying for a seed (cross-detection)
    "C01-A": ["C13"], "C01-B": [], "C19-B": ["C01"], "C02-A": ["C09"], "C10-A": ["C09"], "C07-B": ["C05"],
    "C10-B": [], "C11-A": ["C07"], "C01-C": ["C02", "C09"], "C02-F": ["C10"], "C04-E": ["C10"], "C07-F": ["C06"],
    "C01-G": ["C02", "C09"], "C02-G": ["C09"], "C09-G": ["C10"], "C10-G": ["C09"], "C19-G": ["C11"], "C07-G": ["C05"],
    "C03-G": ["C04"], "C11-G": ["C07"],
    "C12-E": ["C09"], "C11-D": ["C19"], "C12-C": ["C09"], "C06-B": ["C07"], "C09-C": ["C02"], "C01-F": ["C09"],
}

def sh(cmd, **kw):
    return subprocess.run(cmd, shell=True, capture_output=True, text=True, **kw)

def fresh_clone():
    shutil.rmtree(SCRATCH, ignore_errors=True)
    sh("git clone -q /repo %s" % SCRATCH)

def run_check(prop, tier, seed="1"):
    env = dict(os.environ, VERIF_REPO=SCRATCH, VERIF_SEED=seed)
    p = subprocess.run([os.path.join(VERIF, "check"), prop, tier], cwd=VERIF, env=env, capture_output=True, text=True)
    keys = re.findall(r"^  key=(\S+)", p.stdout, re.M)
    return p.returncode, keys

def main():
    only = set(sys.argv[1:])
    seeds = sorted(d for d in os.listdir(os.path.join(VERIF, "seeded")) if os.path.isdir(os.path.join(VERIF, "seeded", d)))
    rows = []
    fresh_clone()
    for sd in seeds:
        if only and sd not in only:
            continue
        prop = sd.split("-")[0]
        patch = os.path.join(VERIF, "seeded", sd, "patch.diff")
        try:
            st = json.load(open(os.path.join(VERIF, "seeded", sd, "meta.json"))).get("status", "")
        except Exception:
            st = ""
        if st.startswith("retired") or st.startswith("neutralized"):
            rows.append((sd, st, ""))
            print(rows[-1], flush=True)
            continue
        sh("git -C %s checkout -q -- . && git -C %s clean -fdq" % (SCRATCH, SCRATCH))
        a = sh("git -C %s apply %s" % (SCRATCH, patch))
        if a.returncode != 0:
            rows.append((sd, "PATCH DOES NOT APPLY", ""))
            continue
        detected = []
        t0 = time.time()
        for p in [prop] + EXTRA.get(sd, []):
            rc, keys = run_check(p, "quick")
            if rc == 1:
                detected.append("%s quick: %s" % (p, ", ".join(keys[:2])))
                continue
            if rc == 2:
                detected.append("%s quick: INCONCLUSIVE" % p)
            rc, keys = run_check(p, "thorough")
            if rc == 1:
                detected.append("%s thorough: %s" % (p, ", ".join(keys[:2])))
        sh("git -C %s checkout -q -- . && git -C %s clean -fdq" % (SCRATCH, SCRATCH))
        rows.append((sd, "; ".join(detected) if detected else "NOT DETECTED", "%.0fs" % (time.time() - t0)))
        meta_path = os.path.join(VERIF, "seeded", sd, "meta.json")
        try:
            meta = json.load(open(meta_path))
            meta["detected_by"] = detected
            meta["what_i_ran"] = "applied patch.diff to a scratch clone of /repo HEAD and ran ./check <property> quick (then thorough when quick did not flag it)"
            json.dump(meta, open(meta_path, "w"), indent=1)
        except Exception as e:
            print("meta", sd, e)
        print(rows[-1], flush=True)
    shutil.rmtree(SCRATCH, ignore_errors=True)
    sh("rm -rf %s/replays/*/found" % VERIF)
    os.makedirs(os.path.join(VERIF, "mutants"), exist_ok=True)
    with open(os.path.join(VERIF, "mutants", "RESULTS.md"), "a") as f:
        f.write("\n## run %s (repo %s)\n\n| seeded change | detected by | time |\n|---|---|---|\n" % (time.strftime("%Y-%m-%d %H:%M"), sh("git -C /repo rev-parse --short HEAD").stdout.strip()))
        for r in rows:
            f.write("| %s | %s | %s |\n" % r)

if __name__ == "__main__":
    main()
