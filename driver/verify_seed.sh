#!/bin/bash
# usage: verify_seed.sh <ID> <A|B>  -- confirms a sub-agent's seeded change in its scratch worktree and files it under /verif/seeded/
set -u
id=$1; v=$2
wt=${MUTDIR:-/tmp/mut}/$id; out=$wt/_out/$v; name=${SEEDNAME:-$id-$v}
export GOFLAGS=-mod=mod GOPROXY=off GOSUMDB=off GOTOOLCHAIN=local
cd $wt || exit 2
git checkout -q -- . ; git clean -fdq -e _out
target=$(head -1 $out/demo_test.go | sed -n 's#^// target: *##p' | tr -d ' \r')
[ -n "$target" ] || { echo "no target line"; exit 2; }
pkg=./$(dirname $target)
tests=$(grep -oE "^func (Test[A-Za-z0-9_]+)" $out/demo_test.go | awk '{print $2}' | paste -sd'|')
res=""
# 1. demo passes on unchanged code
cp $out/demo_test.go $target
go test -vet=off -count=1 -run "^($tests)$" $pkg > /tmp/vs1.$id.log 2>&1; r1=$?
# 2. with change: demo fails
git apply $out/patch.diff || { echo "patch does not apply"; exit 3; }
go test -vet=off -count=1 -run "^($tests)$" $pkg > /tmp/vs2.$id.log 2>&1; r2=$?
# 3. with change, without demo: suite passes
rm -f $target
go build ./... > /tmp/vs3.$id.log 2>&1 && go test -vet=off -count=1 ./... >> /tmp/vs3.$id.log 2>&1; r3=$?
git checkout -q -- . ; git clean -fdq -e _out
echo "$id-$v demo_clean_rc=$r1 demo_mutant_rc=$r2 suite_mutant_rc=$r3 target=$target tests=$tests"
if [ $r1 -eq 0 ] && [ $r2 -ne 0 ] && [ $r3 -eq 0 ]; then
  d=/verif/seeded/$name; mkdir -p $d
  cp $out/patch.diff $d/patch.diff; cp $out/demo_test.go $d/demo_test.go; cp $out/NOTES.md $d/NOTES.md 2>/dev/null
  python3 - "$id" "$name" "$target" "$tests" "$(git -C $wt rev-parse HEAD)" <<'PY'
import json,sys,re
id,v,target,tests,base=sys.argv[1:6]

meta={"property":id,"variant":v,"base_commit":base,"demo_target":target,"demo_tests":tests.split('|'),
 "needs_to_manifest":"see NOTES.md (written by the independent sub-agent)",
 "confirmed":{"demo_passes_on_unchanged_tree":True,"demo_fails_with_change":True,"existing_suite_passes_with_change":True,
   "commands":["go test -vet=off -count=1 -run '^(%s)$' ./%s   (unchanged: pass; with patch: fail)"%(tests,target.rsplit('/',1)[0]),"go build ./... && go test -vet=off -count=1 ./...   (with patch, demo removed: pass)"]},
 "detected_by":None}
json.dump(meta,open('/verif/seeded/%s/meta.json'%v,'w'),indent=1)
PY
  echo "KEPT $d"
else
  echo "REJECTED"; tail -5 /tmp/vs1.$id.log /tmp/vs2.$id.log /tmp/vs3.$id.log
fi
