#!/bin/bash
# usage: try_mutant_scratch.sh <patch.diff> <PROP> [tier]   -- like try_mutant.sh but in a scratch clone of /repo (VERIF_REPO), /repo itself is not touched
set -u
patch=$1; prop=$2; tier=${3:-quick}
s=$(mktemp -d /tmp/mscratch-XXXXXX)
git clone -q /repo $s/r || exit 2
if ! git -C $s/r apply "$patch" 2>$s/apply.err; then echo "PATCH DOES NOT APPLY"; cat $s/apply.err; rm -rf $s; exit 3; fi
cd /verif && VERIF_REPO=$s/r VERIF_SEED=${VERIF_SEED:-1} ./check $prop $tier > $s/out 2>$s/err; rc=$?
grep -E "^(VIOLATION|OK|INCONCLUSIVE|  key=)" $s/out | cut -c1-260 | head -8
echo "rc=$rc"
rm -rf $s
exit $rc
