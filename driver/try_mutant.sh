#!/bin/bash
# usage: try_mutant.sh <patch.diff> <PROP> [tier]   -- applies the patch to /repo, runs the check, reverts.
set -u
patch=$1; prop=$2; tier=${3:-quick}
cd /repo || exit 2
if [ -n "$(git status --porcelain)" ]; then echo "repo dirty"; exit 2; fi
if ! git apply --3way "$patch" 2>/tmp/apply.err; then
  if ! git apply "$patch" 2>>/tmp/apply.err; then echo "PATCH DOES NOT APPLY"; cat /tmp/apply.err; git checkout -- . ; git reset -q --hard HEAD; exit 3; fi
fi
git reset -q   # unstage anything --3way staged
cd /verif && VERIF_SEED=${VERIF_SEED:-1} ./check $prop $tier > /tmp/mutant.out 2>/tmp/mutant.err; rc=$?
grep -E "^(VIOLATION|KNOWN|OK|INCONCLUSIVE|  key=)" /tmp/mutant.out | cut -c1-260 | head -12
echo "rc=$rc"
cd /repo && git checkout -- . && git clean -fdq -- . ':!_out' 2>/dev/null
[ -z "$(git status --porcelain)" ] || { echo "WARNING repo not clean"; git status --short; }
exit $rc
