//go:build verif

package spynode

import (
	"fmt"
	"testing"

	"github.com/tokenized/pkg/bitcoin"
	"github.com/tokenized/spynode/internal/verifkit"

	"pgregory.net/rapid"
)

// C04 over histories with a storage fault inside the processing of a block and a restart: the node is
// catching up (block headers are then only persisted every 1000 blocks), one storage operation
// during ProcessBlock of the block that holds the generated transactions fails, the process ends
// there and a new process starts on the storage as it was left. When the node then processes that
// block (again), the statement of C04 applies to that processing like to any other: every relevant
// transaction of the block is notified with a proof the independent verifier accepts, true index,
// depth zero. Nothing is asked about the interrupted attempt beyond "a proof that was sent is valid".

type C04CrashScenario struct {
	Rel   []int  `json:"rel"`   // per tx: -1 irrelevant, 0..5 relevant
	Seen  []bool `json:"seen"`  // delivered unconfirmed while the node was in sync, before the block
	Ahead int    `json:"ahead"` // empty blocks on top of the block with the transactions
	Kind  string `json:"kind"`  // read | write | remove
	At    int    `json:"at"`    // the At-th operation of that kind inside ProcessBlock fails
	Parse bool   `json:"parse"`
}

func c04CrashRun(sc *C04CrashScenario) (res *txHistResult) {
	res = &txHistResult{flags: map[string]bool{}}
	flags := res.flags
	n := len(sc.Rel)
	fetch := newStubFetcher()
	specs := make([]TxSpec, n)
	for i := range specs {
		specs[i] = TxSpec{Ins: []TxInSpec{{Fund: 10 + i}}, Rel: sc.Rel[i]}
	}
	txs := txUniverse(specs, fetch)
	idOf := map[bitcoin.Hash32]int{}
	members := make([]int, n)
	for i, tx := range txs {
		idOf[*tx.TxHash()] = i
		members[i] = i
	}
	tree := verifkit.NewTree(genesisHeader())
	a1 := tree.Add(tree.Genesis, "a1", nil)
	sn, hv := syncedNode(tree, a1, a1, fetch, subUniverse, sc.Parse)
	if hv != nil {
		res.add("C04/"+hv.key, hv.what)
		return res
	}
	defer func() {
		if r := recover(); r != nil {
			res.add("C04/panic", fmt.Sprintf("panic at step %d: %v\n%s", sn.step, r, shortStack()))
		}
	}()
	for i, tx := range txs {
		if i < len(sc.Seen) && sc.Seen[i] {
			sn.deliver(tx)
			for sn.txStep() {
			}
			if sc.Rel[i] >= 0 {
				flags["seen-before"] = true
			}
		}
	}
	a2 := tree.Add(a1, "a2", txs)
	last := a2
	for k := 0; k < sc.Ahead; k++ {
		last = tree.Add(last, verifkit.ChainName("a", 3+k), nil)
	}
	// the peer's chain grew while the connection was down: the node catches up after reconnecting
	sn.peer.best = last
	sn.reconnect()

	faultHit := false
	completed := 0
	sn.beforeBlock = func(h bitcoin.Hash32) {
		if h == a2.Hash && !faultHit && sc.At > 0 {
			if sn.node.state.IsReady() {
				flags["block-while-in-sync"] = true
			}
			sn.store.ArmKindFault(sc.Kind, sc.At)
		}
	}
	sn.afterBlock = func(h bitcoin.Hash32, err error) {
		if h != a2.Hash {
			return
		}
		if sn.store.FailHit && !faultHit {
			faultHit = true
			flags["fault-inside-block:"+sc.Kind] = true
		}
		sn.store.Disarm()
		if err == nil {
			completed++
			judgeBlockProofs(sn, specs, a2, members, idOf, res)
		}
	}
	run := func() {
		for round := 0; round < 200; round++ {
			moved := false
			for sn.deliverNext(0) {
				moved = true
			}
			for sn.txStep() {
				moved = true
			}
			for sn.blockStep() {
				moved = true
				if sn.blockThreadDead != "" {
					return
				}
			}
			if !moved {
				return
			}
		}
	}
	run()
	if faultHit {
		// the process ends at the failed operation; a new one starts on what storage holds
		image := sn.store.Clone()
		if err := sn.crashRestart(image); err != nil {
			// a node that refuses to start on the storage a fault left behind is C10's subject
			flags["restart-refused"] = true
			return res
		}
		flags["restart-after-fault"] = true
		sn.blockThreadDead, sn.txThreadDead = "", ""
		run()
		if sn.blockThreadDead != "" {
			flags["second-attempt-failed"] = true
			return res
		}
	} else if sn.blockThreadDead != "" {
		res.add("C04/block-thread-exit", "processing a valid block failed without an injected fault: "+sn.blockThreadDead)
		return res
	}
	if completed > 0 {
		flags["block-processed"] = true
		if faultHit {
			flags["block-processed-after-fault"] = true
		}
	}
	if completed > 1 {
		flags["block-processed-twice"] = true
	}
	// every proof that was sent for a transaction of the block, in any attempt, must be valid
	index := map[bitcoin.Hash32]int{}
	for k, tx := range a2.Txs {
		index[*tx.TxHash()] = k
	}
	for _, e := range sn.h1.snapshot() {
		if (e.Kind != "tx" && e.Kind != "update") || e.State.MerkleProof == nil {
			continue
		}
		k, in := index[e.TxID]
		if !in {
			continue
		}
		mp := e.State.MerkleProof
		root, ok := verifkit.VerifyBranch(e.TxID, mp.Index, mp.Path, mp.DuplicatedIndexes)
		if !ok || root != a2.Header.MerkleRoot || int(mp.Index) != k || *mp.BlockHeader.BlockHash() != a2.Hash {
			res.add("C04/crash/proof-invalid", fmt.Sprintf("tx%d (index %d of the block) was notified at step %d with a proof the independent verifier rejects (index %d, path %d)", idOf[e.TxID], k, e.Step, mp.Index, len(mp.Path)))
		}
	}
	return res
}

func genC04Crash(t *rapid.T) *C04CrashScenario {
	n := rapid.IntRange(1, 8).Draw(t, "n")
	sc := &C04CrashScenario{Ahead: rapid.IntRange(0, 3).Draw(t, "ahead"), Parse: rapid.Bool().Draw(t, "parse")}
	for i := 0; i < n; i++ {
		rel := rapid.IntRange(-1, 5).Draw(t, "rel")
		if rapid.IntRange(0, 2).Draw(t, "relevant") != 0 && rel < 0 {
			rel = 0
		}
		sc.Rel = append(sc.Rel, rel)
		sc.Seen = append(sc.Seen, rapid.IntRange(0, 3).Draw(t, "seen") == 0)
	}
	sc.Kind = rapid.SampledFrom([]string{"write", "write", "write", "read", "remove"}).Draw(t, "kind")
	sc.At = rapid.IntRange(0, 3*n+6).Draw(t, "at")
	return sc
}

const c04CrashRule = "step-mode: a synced node sees a generated subset of 1-8 generated transactions unconfirmed, the connection drops, the peer mines them into one block plus 0-3 empty blocks, the node reconnects and catches up; the At-th storage read/write/remove inside ProcessBlock of that block fails (At generated, 0 = none), the process ends there and a new process starts on the storage as the fault left it and catches up; oracle: whenever ProcessBlock of the block returns without error, every relevant tx of it was notified in that step with a proof the independent verifier accepts against the header the node holds at that height, true index, depth zero, and every proof sent in any attempt verifies; non-trivial = the fault hit inside the block, the new process processed the block again and it holds a relevant tx; distinct by scenario hash"

func c04CrashNontrivial(f map[string]bool) bool {
	return f["block-processed-after-fault"] && f["relevant-tx-confirmed"]
}

func TestC04Crash(t *testing.T) {
	rep := verifkit.NewReport("C04", "TestC04Crash", c04CrashRule)
	defer rep.Finish(t)
	runOne := func(sc *C04CrashScenario) (*nodeViolation, map[string]bool) {
		res := c04CrashRun(sc)
		for _, v := range res.violations {
			if verifkit.Known(v.key) {
				rep.Exclude(v.key)
				continue
			}
			return v, res.flags
		}
		return nil, res.flags
	}
	replay := func(path string) {
		var sc C04CrashScenario
		if _, _, err := verifkit.LoadReplay(path, &sc); err != nil {
			t.Fatalf("replay %s: %v", path, err)
		}
		v, f := runOne(&sc)
		rep.Case(verifkit.Hash(sc), c04CrashNontrivial(f), "replay")
		if v != nil {
			rep.AddViolation(v.key, v.what, sc)
			t.Errorf("replay %s: %s: %s", path, v.key, v.what)
		}
	}
	if f := verifkit.ReplayFile("TestC04Crash"); f != "" {
		replay(f)
		return
	}
	for _, f := range verifkit.RegressionFiles("TestC04Crash") {
		replay(f)
	}
	rapid.Check(t, func(rt *rapid.T) {
		sc := genC04Crash(rt)
		v, f := runOne(sc)
		rep.Case(verifkit.Hash(sc), c04CrashNontrivial(f), flagList(f)...)
		if c04CrashNontrivial(f) && rep.WantSample() {
			rep.Sample(sc)
		}
		if v != nil {
			rep.Fail(v.key, v.what, sc)
			rt.Fatalf("%s: %s", v.key, v.what)
		}
	})
}
