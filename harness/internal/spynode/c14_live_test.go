//go:build verif

package spynode

// C14, live: the real Node.Run against a peer on a loopback socket. The step-mode histories mirror
// Run's restart of the trusted connection by hand; this test lets Run do it. After 0-2 losses of the
// connection the peer announces transactions it never delivers, announces them again while the
// first request is still active (so that they are only tracked), and keeps the connection busy with
// pings; the node must ask again once the three-second window has passed.

import (
	"fmt"
	"testing"
	"time"

	"github.com/tokenized/pkg/bitcoin"
	"github.com/tokenized/spynode/internal/verifkit"

	"pgregory.net/rapid"
)

type C14LivePlan struct {
	Reconnects int  `json:"reconnects"` // losses of the trusted connection before the announcements
	Reset      bool `json:"reset"`      // connection reset instead of a clean close
	NTx        int  `json:"ntx"`
	GapMs      int  `json:"gap_ms"` // second announcement this long after the first
}

func c14LiveRun(plan *C14LivePlan) (*nodeViolation, map[string]bool) {
	flags := map[string]bool{}
	fetch := newStubFetcher()
	tree := verifkit.NewTree(genesisHeader())
	prev := tree.Genesis
	for b := 1; b <= 3; b++ {
		prev = tree.Add(prev, verifkit.ChainName("a", b), nil)
	}
	best := prev
	var specs []TxSpec
	for k := 0; k < plan.NTx; k++ {
		specs = append(specs, TxSpec{Ins: []TxInSpec{{Fund: 700 + k}}, Rel: k % 2})
	}
	txs := txUniverse(specs, fetch)
	var hashes []bitcoin.Hash32
	for _, tx := range txs {
		hashes = append(hashes, *tx.TxHash())
	}
	fp := newFakePeer(tree, best)
	lp, err := newLivePeer(fp)
	if err != nil {
		return &nodeViolation{"C14/harness/listen", err.Error()}, flags
	}
	defer lp.shutdown()
	cfg := stepConfig()
	cfg.NodeAddress = lp.ln.Addr().String()
	cfg.RetryDelay = 20
	cfg.StartHash = tree.ByName[verifkit.ChainName("a", 1)].Hash
	store := verifkit.NewMemStore(true)
	ctx := quietCtx()
	node := NewNode(cfg, store, fetch, fetch)
	h := &liveHandler{}
	node.RegisterHandler(h)
	_ = node.SubscribePushDatas(ctx, subUniverse)
	runDone := make(chan error, 1)
	go func() { runDone <- node.Run(ctx) }()
	defer func() {
		stopped := make(chan struct{})
		go func() { _ = node.Stop(ctx); close(stopped) }()
		select {
		case <-stopped:
		case <-time.After(30 * time.Second):
		}
		select {
		case <-runDone:
		case <-time.After(5 * time.Second):
		}
	}()
	// inSyncOn waits until the node is in sync on a connection made after the first n
	inSyncOn := func(n int) bool {
		deadline := time.Now().Add(20 * time.Second)
		for time.Now().Before(deadline) {
			lp.mu.Lock()
			ok := len(lp.conns) > n && lp.fp.sendHeaders
			lp.mu.Unlock()
			if ok && node.blocks.LastHeight() == best.Height && node.state.IsReady() {
				return true
			}
			time.Sleep(10 * time.Millisecond)
		}
		return false
	}
	if !inSyncOn(0) {
		flags["harness:no-initial-sync"] = true
		return nil, flags // no verdict
	}
	for r := 1; r <= plan.Reconnects; r++ {
		lp.mu.Lock()
		before := len(lp.conns)
		lp.mu.Unlock()
		lp.closeAll(plan.Reset)
		if !inSyncOn(before) {
			flags["harness:no-resync"] = true // C19's subject
			return nil, flags
		}
		flags["reconnected"] = true
	}
	requests := func(hh bitcoin.Hash32) []liveTxReq {
		lp.mu.Lock()
		defer lp.mu.Unlock()
		var out []liveTxReq
		for _, r := range lp.txReqs {
			if r.hash == hh {
				out = append(out, r)
			}
		}
		return out
	}
	waitFor := func(count int, limit time.Duration) bool {
		deadline := time.Now().Add(limit)
		for time.Now().Before(deadline) {
			all := true
			for _, hh := range hashes {
				if len(requests(hh)) < count {
					all = false
				}
			}
			if all {
				return true
			}
			time.Sleep(10 * time.Millisecond)
		}
		return false
	}
	lp.mu.Lock()
	lp.invQueue = append(lp.invQueue, hashes)
	lp.mu.Unlock()
	if !waitFor(1, 10*time.Second) {
		flags["harness:first-request-not-seen"] = true // first requests are judged in step mode
		return nil, flags
	}
	time.Sleep(time.Duration(plan.GapMs) * time.Millisecond)
	lp.mu.Lock()
	lp.invQueue = append(lp.invQueue, hashes)
	lp.mu.Unlock()
	flags["announced-while-requested"] = true
	// the connection has activity every 40 ms (pings): the second request is due a little after 3 s
	if !waitFor(2, 3*time.Second+20*time.Second) {
		missing := 0
		for _, hh := range hashes {
			if len(requests(hh)) < 2 {
				missing++
			}
		}
		return &nodeViolation{"C14/live/re-request-missing", fmt.Sprintf("after %d reconnect(s) of the trusted connection the peer announced %d txs, never delivered them, announced them again %d ms later and pinged every 40 ms: %d of them were not asked for again within 23 s of the first request", plan.Reconnects, plan.NTx, plan.GapMs, missing)}, flags
	}
	flags["re-request"] = true
	return nil, flags
}

func genC14Live(t *rapid.T) *C14LivePlan {
	return &C14LivePlan{Reconnects: rapid.SampledFrom([]int{0, 1, 1, 2}).Draw(t, "reconnects"), Reset: rapid.Bool().Draw(t, "reset"),
		NTx: rapid.IntRange(1, 3).Draw(t, "ntx"), GapMs: rapid.SampledFrom([]int{100, 600, 1500, 2400}).Draw(t, "gap")}
}

const c14LiveRule = "live: the real Node.Run against a scripted peer on a loopback socket; after 0, 1 or 2 losses of the trusted connection (close or reset; Run restarts it) the peer announces 1-3 transactions it never delivers, announces them again 0.1-2.4 s later and pings every 40 ms; oracle: every one of them is asked for a second time - by the same peer, which is the one that announced it again, as the code and the step-mode model read 'a peer that also announced it' - (waited for up to 23 s; a verdict counts when the same plan fails twice); non-trivial = at least one reconnect happened before the announcements; distinct by plan hash"

func TestC14Live(t *testing.T) {
	rep := verifkit.NewReport("C14", "TestC14Live", c14LiveRule)
	defer rep.Finish(t)
	nt := func(f map[string]bool) bool { return f["reconnected"] && f["announced-while-requested"] }
	runTwice := func(plan *C14LivePlan) (*nodeViolation, map[string]bool) {
		v, f := c14LiveRun(plan)
		if v != nil {
			first := v.key
			v, f = c14LiveRun(plan)
			if v == nil {
				rep.Label("verdict-not-reproduced:"+first, 1)
			}
		}
		return v, f
	}
	replay := func(path string) {
		var plan C14LivePlan
		if _, _, err := verifkit.LoadReplay(path, &plan); err != nil {
			t.Fatalf("replay %s: %v", path, err)
		}
		v, f := runTwice(&plan)
		rep.Case(verifkit.Hash(plan), nt(f), "replay")
		if v != nil {
			rep.AddViolation(v.key, v.what, plan)
			t.Errorf("replay %s: %s: %s", path, v.key, v.what)
		}
	}
	if f := verifkit.ReplayFile("TestC14Live"); f != "" {
		replay(f)
		return
	}
	for _, f := range verifkit.RegressionFiles("TestC14Live") {
		replay(f)
	}
	rapid.Check(t, func(rt *rapid.T) {
		plan := genC14Live(rt)
		v, f := runTwice(plan)
		rep.Case(verifkit.Hash(plan), nt(f), flagList(f)...)
		if nt(f) && rep.WantSample() {
			rep.Sample(plan)
		}
		if v != nil {
			if verifkit.Known(v.key) {
				rep.Exclude(v.key)
				return
			}
			rep.Fail(v.key, v.what, plan)
			rt.Fatalf("%s: %s", v.key, v.what)
		}
	})
}
