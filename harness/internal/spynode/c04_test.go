//go:build verif

package spynode

// C04 — Confirmations carry valid merkle proofs; bad-merkle blocks are never accepted.

import (
	"fmt"
	"testing"

	"github.com/tokenized/pkg/bitcoin"
	"github.com/tokenized/pkg/wire"
	"github.com/tokenized/spynode/internal/verifkit"
	"github.com/tokenized/spynode/pkg/client"

	"pgregory.net/rapid"
)

// C04Scenario is one block with N non-coinbase transactions.
type C04Scenario struct {
	Rel     []int  `json:"rel"`     // per non-coinbase tx: -1 irrelevant, else subscription value index
	InIn    []bool `json:"in_in"`   // relevant push in the input script instead of an output
	Seen    []bool `json:"seen"`    // delivered unconfirmed before the block
	Corrupt string `json:"corrupt"` // "", drop, add, swap, alter, dup-last
	At      int    `json:"at"`      // position the corruption applies to
	Parse   bool   `json:"parse"`
}

// syncedNode boots a node on tree/start/best, connects it and runs it to the in-sync notification.
func syncedNode(tree *verifkit.Tree, start, best *verifkit.TBlock, fetch *stubFetcher, subs [][]byte, parse bool) (*stepNode, *nodeViolation) {
	cfg := stepConfig()
	cfg.StartHash = start.Hash
	peer := newFakePeer(tree, best)
	peer.parseBlocks = parse
	sn := newStepNode(cfg, verifkit.NewMemStore(true), peer, fetch)
	sn.subs = subs
	if err := sn.boot(); err != nil {
		return nil, &nodeViolation{"harness/boot", err.Error()}
	}
	sn.connect()
	insync := func() bool {
		for _, e := range sn.h1.snapshot() {
			if e.Kind == "insync" {
				return true
			}
		}
		return false
	}
	if ok, _ := sn.fairCompletion(func() bool { c, _ := sn.converged(); return c && insync() && sn.peer.sendHeaders }, 60); !ok {
		return nil, &nodeViolation{"harness/sync", "node did not reach the in-sync notification on a plain chain"}
	}
	return sn, nil
}

func c04Run(sc *C04Scenario) (v *nodeViolation, flags map[string]bool) {
	flags = map[string]bool{}
	n := len(sc.Rel)
	fetch := newStubFetcher()
	specs := make([]TxSpec, n)
	for i := range specs {
		specs[i] = TxSpec{Ins: []TxInSpec{{Fund: 10 + i}}, Rel: sc.Rel[i], InIn: i < len(sc.InIn) && sc.InIn[i]}
	}
	txs := txUniverse(specs, fetch)
	tree := verifkit.NewTree(genesisHeader())
	a1 := tree.Add(tree.Genesis, "a1", nil)
	a2 := tree.Add(a1, "a2", txs)
	sn, hv := syncedNode(tree, a1, a1, fetch, subUniverse, sc.Parse)
	if hv != nil {
		return &nodeViolation{"C04/" + hv.key, hv.what}, flags
	}
	defer func() {
		if r := recover(); r != nil {
			v = &nodeViolation{"C04/panic", fmt.Sprintf("panic: %v\n%s", r, shortStack())}
		}
	}()
	// previously seen relevant transactions
	seen := map[bitcoin.Hash32]bool{}
	for i, tx := range txs {
		if i < len(sc.Seen) && sc.Seen[i] {
			sn.deliver(tx)
			for sn.txStep() {
			}
			seen[*tx.TxHash()] = true
			if sc.Rel[i] >= 0 {
				flags["seen-before"] = true
			}
		}
	}
	// corruption of the body under an unchanged header
	body := append([]*wire.MsgTx{}, a2.Txs...)
	corrupted := false
	at := 0
	if len(body) > 0 {
		at = sc.At % len(body)
	}
	switch sc.Corrupt {
	case "drop":
		if len(body) > 1 {
			body = append(body[:at], body[at+1:]...)
			corrupted = true
		}
	case "add":
		extra := txUniverse([]TxSpec{{Ins: []TxInSpec{{Fund: 5000}}, Rel: 0}}, fetch)[0]
		body = append(body[:at], append([]*wire.MsgTx{extra}, body[at:]...)...)
		corrupted = true
	case "swap":
		if len(body) > 1 {
			j := (at + 1) % len(body)
			if *body[at].TxHash() != *body[j].TxHash() {
				body[at], body[j] = body[j], body[at]
				corrupted = true
			}
		}
	case "alter":
		c := body[at].Copy()
		c.LockTime++
		body[at] = &c
		corrupted = true
	case "dup":
		// the last 2^k transactions once more (k = At mod 4, as far as the body allows): when the
		// number of 2^k-groups is odd this body has the same merkle root
		d := 1 << uint(sc.At%4)
		for d > len(body) {
			d /= 2
		}
		body = append(body, body[len(body)-d:]...)
		corrupted = true
		if d > 1 {
			flags["repeated-run"] = true
		}
	}
	mutatedSameRoot := false
	if corrupted {
		ids := make([]bitcoin.Hash32, len(body))
		for k, tx := range body {
			ids[k] = *tx.TxHash()
		}
		if r, _, _ := verifkit.MerkleBranch(ids, 0); r == a2.Header.MerkleRoot {
			mutatedSameRoot = true
			flags["mutated-body-same-root"] = true
		}
	}
	if corrupted {
		flags["corrupted:"+sc.Corrupt] = true
		sn.peer.corrupt[a2.Hash] = func(b *verifkit.TBlock) *wire.MsgBlock { return b.MsgWithTxs(body) }
	}
	before1 := len(sn.h1.snapshot())
	heightBefore := sn.node.blocks.LastHeight()
	sn.peer.setBest(a2)
	for sn.deliverNext(0) {
		for sn.blockStep() {
		}
	}
	for sn.blockStep() {
	}
	if sn.blockThreadDead != "" {
		if corrupted {
			// a failed ProcessBlock on a corrupted body is a refusal as long as nothing was accepted
		} else {
			return &nodeViolation{"C04/block-thread-exit", "processing a valid block failed: " + sn.blockThreadDead}, flags
		}
	}
	evs := sn.h1.snapshot()[before1:]
	evs2 := sn.h2.snapshot()
	if len(evs2) != before1+len(evs) {
		return &nodeViolation{"C04/handlers-differ", "the two handlers saw different numbers of notifications"}, flags
	}
	if mutatedSameRoot {
		// the body hashes to the header's root although it is not the block's transaction list: the
		// node may refuse it; if it takes it, no transaction may be delivered twice and every proof
		// must verify
		if sn.node.blocks.LastHeight() == heightBefore {
			return nil, flags
		}
		seenNote := map[bitcoin.Hash32]int{}
		for _, e := range evs {
			if e.Kind != "tx" && e.Kind != "update" {
				continue
			}
			seenNote[e.TxID]++
			if seenNote[e.TxID] > 1 {
				return &nodeViolation{"C04/mutated-block/delivered-twice", fmt.Sprintf("a block body with its last transactions repeated (%d txs, same merkle root) was accepted and a transaction of it was notified %d times", len(body), seenNote[e.TxID])}, flags
			}
			mp := e.State.MerkleProof
			if mp == nil {
				return &nodeViolation{"C04/mutated-block/proof-missing", "a notification from a block with a repeated last transaction carries no proof"}, flags
			}
			if root, ok := verifkit.VerifyBranch(e.TxID, mp.Index, mp.Path, mp.DuplicatedIndexes); !ok || root != a2.Header.MerkleRoot {
				return &nodeViolation{"C04/mutated-block/proof-invalid", fmt.Sprintf("a block body with its last transactions repeated (%d txs, same merkle root) was accepted and the proof for index %d does not verify", len(body), mp.Index)}, flags
			}
		}
		return nil, flags
	}
	if corrupted {
		if sn.node.blocks.LastHeight() != heightBefore || sn.node.blocks.Contains(&a2.Hash) {
			return &nodeViolation{"C04/bad-merkle/added-to-chain", fmt.Sprintf("a block whose body (%s at %d of %d txs) does not hash to its header's merkle root was added to the chain (height %d -> %d)", sc.Corrupt, at, len(a2.Txs), heightBefore, sn.node.blocks.LastHeight())}, flags
		}
		for _, e := range evs {
			if e.Kind == "headers" || e.Kind == "tx" || e.Kind == "update" {
				return &nodeViolation{"C04/bad-merkle/delivered", fmt.Sprintf("a bad-merkle block (%s) produced a %s notification", sc.Corrupt, e.Kind)}, flags
			}
		}
		return nil, flags
	}
	if sn.node.blocks.LastHeight() != heightBefore+1 || *sn.node.blocks.LastHash() != a2.Hash {
		return &nodeViolation{"C04/valid-block-not-added", "a valid block was not added"}, flags
	}
	hdr, _ := sn.node.blocks.Header(sn.ctx, sn.node.blocks.LastHeight())
	txids := a2.TxIDs()
	// notifications per txid from the block
	type note struct {
		kind  string
		state client.TxState
	}
	notes := map[bitcoin.Hash32][]note{}
	for _, e := range evs {
		if e.Kind == "tx" || e.Kind == "update" {
			notes[e.TxID] = append(notes[e.TxID], note{e.Kind, e.State})
		}
	}
	for i, tx := range a2.Txs {
		id := txids[i]
		relevant := i > 0 && sc.Rel[i-1] >= 0
		ns := notes[id]
		if !relevant {
			if len(ns) > 0 {
				return &nodeViolation{"C04/irrelevant-delivered", fmt.Sprintf("tx %d of the block does not match the subscriptions but was notified", i)}, flags
			}
			continue
		}
		_ = tx
		if len(ns) != 1 {
			return &nodeViolation{"C04/notification-count", fmt.Sprintf("relevant tx at index %d of a %d-tx block got %d notifications from the block, want 1", i, len(a2.Txs), len(ns))}, flags
		}
		wantKind := "tx"
		if seen[id] {
			wantKind = "update"
		}
		if ns[0].kind != wantKind {
			return &nodeViolation{"C04/notification-kind", fmt.Sprintf("relevant tx at index %d (seen before: %v) was notified as %q, want %q", i, seen[id], ns[0].kind, wantKind)}, flags
		}
		st := ns[0].state
		mp := st.MerkleProof
		if mp == nil {
			return &nodeViolation{"C04/proof/missing", fmt.Sprintf("confirmation of tx at index %d carries no merkle proof", i)}, flags
		}
		if st.UnconfirmedDepth != 0 {
			return &nodeViolation{"C04/proof/unconfirmed-depth", fmt.Sprintf("confirmation of tx at index %d has unconfirmed depth %d", i, st.UnconfirmedDepth)}, flags
		}
		if mp.Index != uint64(i) {
			return &nodeViolation{"C04/proof/index", fmt.Sprintf("proof index %d for the tx at position %d of %d", mp.Index, i, len(a2.Txs))}, flags
		}
		if *mp.BlockHeader.BlockHash() != *hdr.BlockHash() {
			return &nodeViolation{"C04/proof/header", "proof header is not the header the node holds at that height"}, flags
		}
		root, ok := verifkit.VerifyBranch(id, mp.Index, mp.Path, mp.DuplicatedIndexes)
		if !ok || root != hdr.MerkleRoot {
			wroot, wpath, wdup := verifkit.MerkleBranch(txids, i)
			return &nodeViolation{"C04/proof/invalid", fmt.Sprintf("independent verifier rejects the proof for index %d of %d txs (path %d hashes, duplicate layers %v; expected path %d hashes, duplicate layers %v, root match %v)", i, len(a2.Txs), len(mp.Path), mp.DuplicatedIndexes, len(wpath), wdup, wroot == hdr.MerkleRoot)}, flags
		}
		if len(mp.DuplicatedIndexes) > 0 {
			flags["duplicate-node-on-path"] = true
		}
		// differential with the code's own verifier, both directions
		if err := mp.IsValid(id); err != nil {
			return &nodeViolation{"C04/isvalid/rejects-valid", fmt.Sprintf("MerkleProof.IsValid rejects a proof the independent verifier accepts: %v", err)}, flags
		}
		bad := mp.Copy()
		if len(bad.Path) > 0 {
			bad.Path[len(bad.Path)-1][7] ^= 0x40
			if bad.IsValid(id) == nil {
				return &nodeViolation{"C04/isvalid/accepts-invalid", "MerkleProof.IsValid accepts a proof with a flipped path byte"}, flags
			}
		}
		if len(a2.Txs) > 1 {
			wrong := mp.Copy()
			wrong.Index ^= 1
			_, hok := verifkit.VerifyBranch(id, wrong.Index, wrong.Path, wrong.DuplicatedIndexes)
			r2, _ := verifkit.VerifyBranch(id, wrong.Index, wrong.Path, wrong.DuplicatedIndexes)
			harnessAccepts := hok && r2 == hdr.MerkleRoot
			if (wrong.IsValid(id) == nil) != harnessAccepts {
				return &nodeViolation{"C04/isvalid/differs", fmt.Sprintf("MerkleProof.IsValid and the independent verifier disagree on a proof with the sibling index (%d)", wrong.Index)}, flags
			}
		}
	}
	return nil, flags
}

func c04Nontrivial(sc *C04Scenario, f map[string]bool) bool {
	return (len(sc.Rel)+1 >= 3 && f["duplicate-node-on-path"]) || sc.Corrupt != ""
}

const c04Rule = "one block with 1..n transactions on a synced node: relevant subset and positions drawn (push in an output or an input script), each relevant tx either delivered unconfirmed before or first seen in the block, both block message forms; optionally a corrupted body (tx dropped/added/swapped/altered, or the last tx repeated, which keeps the merkle root when the count is odd) under the unchanged header; oracle: independent merkle tree + own proof verifier, index/header/depth checks, differential with MerkleProof.IsValid; non-trivial = >=3 txs with a duplicated node on a proof path, or a corrupted body; distinct by scenario hash"

func TestC04Systematic(t *testing.T) {
	rep := verifkit.NewReport("C04", "TestC04Systematic", c04Rule+"; systematic sub-run: every block size 1..17 (18 in thorough), each with 8 relevant subsets (all, none-but-last, alternating, singletons at first/middle/last, seen/unseen variants)")
	defer rep.Finish(t)
	if f := verifkit.ReplayFile("TestC04Systematic"); f != "" {
		c04Replay(t, rep, f)
		return
	}
	maxN := 17
	seen := map[string]bool{}
	for total := 1; total <= maxN; total++ {
		n := total - 1
		for variant := 0; variant < 8; variant++ {
			sc := &C04Scenario{Parse: variant%2 == 1}
			for i := 0; i < n; i++ {
				rel := -1
				switch variant {
				case 0, 1:
					rel = i % 6
				case 2:
					if i == n-1 {
						rel = 0
					}
				case 3:
					if i%2 == 0 {
						rel = 3
					}
				case 4:
					if i == 0 {
						rel = 1
					}
				case 5:
					if i == n/2 {
						rel = 4
					}
				case 6:
					if i >= n-2 {
						rel = 2
					}
				case 7:
					if i%3 == 1 {
						rel = 5
					}
				}
				sc.Rel = append(sc.Rel, rel)
				sc.InIn = append(sc.InIn, (i+variant)%4 == 0)
				sc.Seen = append(sc.Seen, (i+variant)%3 == 0)
			}
			v, f := c04Run(sc)
			rep.Case(verifkit.Hash(sc), c04Nontrivial(sc, f), flagList(f)...)
			if rep.WantSample() && c04Nontrivial(sc, f) && total == 7 {
				rep.Sample(sc)
			}
			if v != nil && !seen[v.key] {
				seen[v.key] = true
				if verifkit.Known(v.key) {
					rep.Exclude(v.key)
					continue
				}
				rep.AddViolation(v.key, v.what, sc)
				t.Errorf("%s: %s", v.key, v.what)
			}
		}
	}
	// every block size once more with its last 1, 2, 4 and 8 transactions repeated (same merkle root
	// when the number of groups of that size is odd)
	for total := 1; total <= maxN; total++ {
		for k := 0; k < 4 && 1<<uint(k) <= total; k++ {
			sc := &C04Scenario{Corrupt: "dup", Parse: total%2 == 0, At: k}
			for i := 0; i < total-1; i++ {
				sc.Rel = append(sc.Rel, i%4)
				sc.InIn = append(sc.InIn, i%2 == 0)
				sc.Seen = append(sc.Seen, i%3 == 0)
			}
			v, f := c04Run(sc)
			rep.Case(verifkit.Hash(sc), c04Nontrivial(sc, f), flagList(f)...)
			if v != nil && !seen[v.key] {
				seen[v.key] = true
				if verifkit.Known(v.key) {
					rep.Exclude(v.key)
					continue
				}
				rep.AddViolation(v.key, v.what, sc)
				t.Errorf("%s: %s", v.key, v.what)
			}
		}
	}
	rep.Exhaustive = true
}

func c04Replay(t *testing.T, rep *verifkit.Report, path string) {
	var sc C04Scenario
	if _, _, err := verifkit.LoadReplay(path, &sc); err != nil {
		t.Fatalf("replay %s: %v", path, err)
	}
	v, f := c04Run(&sc)
	rep.Case(verifkit.Hash(sc), c04Nontrivial(&sc, f), "replay")
	if v != nil {
		rep.AddViolation(v.key, v.what, sc)
		t.Errorf("replay %s: %s: %s", path, v.key, v.what)
	}
}

func TestC04Random(t *testing.T) {
	rep := verifkit.NewReport("C04", "TestC04Random", c04Rule)
	defer rep.Finish(t)
	if f := verifkit.ReplayFile("TestC04Random"); f != "" {
		c04Replay(t, rep, f)
		return
	}
	for _, f := range verifkit.RegressionFiles("TestC04Random") {
		c04Replay(t, rep, f)
	}
	rapid.Check(t, func(rt *rapid.T) {
		n := rapid.IntRange(0, 69).Draw(rt, "n")
		if rapid.Bool().Draw(rt, "small") {
			n = rapid.IntRange(0, 12).Draw(rt, "nsmall")
		}
		sc := &C04Scenario{Parse: rapid.Bool().Draw(rt, "parse"), At: rapid.IntRange(0, 70).Draw(rt, "at"),
			Corrupt: rapid.SampledFrom([]string{"", "", "", "drop", "add", "swap", "alter", "dup"}).Draw(rt, "corrupt")}
		for i := 0; i < n; i++ {
			rel := -1
			if rapid.IntRange(0, 2).Draw(rt, "isrel") == 0 {
				rel = rapid.IntRange(0, 5).Draw(rt, "rel")
			}
			sc.Rel = append(sc.Rel, rel)
			sc.InIn = append(sc.InIn, rapid.Bool().Draw(rt, "inin"))
			sc.Seen = append(sc.Seen, rapid.Bool().Draw(rt, "seen"))
		}
		v, f := c04Run(sc)
		rep.Case(verifkit.Hash(sc), c04Nontrivial(sc, f), flagList(f)...)
		if rep.WantSample() && c04Nontrivial(sc, f) && n < 9 {
			rep.Sample(sc)
		}
		if v != nil {
			if verifkit.Known(v.key) {
				rep.Exclude(v.key)
				return
			}
			rep.Fail(v.key, v.what, sc)
			rt.Fatalf("%s: %s", v.key, v.what)
		}
	})
}
