//go:build verif

package spynode

// Step mode: a single goroutine drives the real handlers, check(), ProcessBlock and
// processUnconfirmedTx of a Node against a fake Bitcoin peer; the harness owns the schedule.

import (
	"context"
	"fmt"
	"net"
	"reflect"
	"sync"
	"time"

	"github.com/tokenized/pkg/bitcoin"
	"github.com/tokenized/pkg/wire"
	"github.com/tokenized/spynode/internal/handlers"
	"github.com/tokenized/spynode/internal/platform/config"
	"github.com/tokenized/spynode/internal/verifkit"
	"github.com/tokenized/spynode/pkg/client"

	"github.com/pkg/errors"
)

// ---------------------------------------------------------------------------------------------
// recording handler

type recEvent struct {
	Step   int
	Kind   string // headers tx update insync message
	Height int
	Header wire.BlockHeader
	TxID   bitcoin.Hash32
	State  client.TxState
	Tx     *client.Tx
	// snapshot at in-sync time
	NodeTip     bitcoin.Hash32
	NodeHeight  int
	Conn        int
	NodePrevAt  *bitcoin.Hash32 // for headers: node's hash at Height-1 at callback time
	ChainHeight int             // node height at callback time
	At          time.Time       // wall clock at callback time
	Shift       time.Duration   // logical time added through the hook so far
}

type recHandler struct {
	mu     sync.Mutex
	sn     *stepNode
	events []recEvent
	after  func(ev *recEvent) // optional hook, runs inside the callback
}

func (h *recHandler) add(ev recEvent) {
	h.mu.Lock()
	defer h.mu.Unlock()
	ev.At = time.Now()
	if h.sn != nil {
		ev.Step = h.sn.step
		ev.Conn = h.sn.peer.conn
		ev.Shift = h.sn.shift
	}
	h.events = append(h.events, ev)
	if h.after != nil {
		h.after(&h.events[len(h.events)-1])
	}
}

func (h *recHandler) HandleTx(ctx context.Context, tx *client.Tx) {
	c := tx.Copy()
	h.add(recEvent{Kind: "tx", TxID: *tx.Tx.TxHash(), State: c.State, Tx: &c})
}

func (h *recHandler) HandleTxUpdate(ctx context.Context, u *client.TxUpdate) {
	c := u.Copy()
	h.add(recEvent{Kind: "update", TxID: c.TxID, State: c.State})
}

func (h *recHandler) HandleHeaders(ctx context.Context, hs *client.Headers) {
	for i, hd := range hs.Headers {
		ev := recEvent{Kind: "headers", Height: int(hs.StartHeight) + i, Header: *hd}
		if h.sn != nil && h.sn.node != nil {
			ev.ChainHeight = h.sn.node.blocks.LastHeight()
			if ph, err := h.sn.node.blocks.Hash(ctx, ev.Height-1); err == nil {
				ev.NodePrevAt = ph
			}
		}
		h.add(ev)
	}
}

func (h *recHandler) HandleInSync(ctx context.Context) {
	ev := recEvent{Kind: "insync"}
	if h.sn != nil && h.sn.node != nil {
		ev.NodeHeight = h.sn.node.blocks.LastHeight()
		ev.NodeTip = *h.sn.node.blocks.LastHash()
	}
	h.add(ev)
}

func (h *recHandler) HandleMessage(ctx context.Context, p client.MessagePayload) {
	h.add(recEvent{Kind: "message"})
}

func (h *recHandler) snapshot() []recEvent {
	h.mu.Lock()
	defer h.mu.Unlock()
	return append([]recEvent{}, h.events...)
}

// ---------------------------------------------------------------------------------------------
// fake peer

type peerMsg struct {
	msg        wire.Message
	block      *verifkit.TBlock // set for block messages
	tag        string
	bestAtSend *verifkit.TBlock // the peer's best tip when it sent this message
}

type fakePeer struct {
	tree        *verifkit.Tree
	best        *verifkit.TBlock
	conn        int
	sendHeaders bool
	toNode      []peerMsg
	mempool     map[bitcoin.Hash32]*wire.MsgTx
	parseBlocks bool
	// log of what the node asked, per connection
	blockRequests [][]bitcoin.Hash32 // [conn] -> hashes in request order
	txRequests    []bitcoin.Hash32
	getHeaders    []*wire.MsgGetHeaders
	versions      []*wire.MsgVersion
	sentToPeer    []wire.Message
	// headers of the peer's best chain contained in messages the node has finished handling
	deliveredTip *verifkit.TBlock
	corrupt      map[bitcoin.Hash32]func(*verifkit.TBlock) *wire.MsgBlock // hostile bodies (C04/C12)
	silentBlocks map[bitcoin.Hash32]bool                                  // blocks the peer does not serve (time-out paths)
	knowsNodeHas *verifkit.TBlock                                         // highest header the peer knows the node has
}

func newFakePeer(tree *verifkit.Tree, best *verifkit.TBlock) *fakePeer {
	return &fakePeer{tree: tree, best: best, mempool: map[bitcoin.Hash32]*wire.MsgTx{}, blockRequests: [][]bitcoin.Hash32{nil},
		corrupt: map[bitcoin.Hash32]func(*verifkit.TBlock) *wire.MsgBlock{}, silentBlocks: map[bitcoin.Hash32]bool{}}
}

func (p *fakePeer) newConnection() {
	p.conn++
	p.sendHeaders = false
	p.toNode = nil
	p.knowsNodeHas = nil
	p.silentBlocks = map[bitcoin.Hash32]bool{} // a block is only withheld on the connection it was asked on
	p.blockRequests = append(p.blockRequests, nil)
}

func (p *fakePeer) blockMsg(b *verifkit.TBlock) wire.Message {
	var m *wire.MsgBlock
	if f, ok := p.corrupt[b.Hash]; ok {
		m = f(b)
	} else {
		m = b.Msg()
	}
	if p.parseBlocks {
		if pm, err := verifkit.ParseMsg(m); err == nil {
			return pm
		}
	}
	return m
}

func (p *fakePeer) headersAfter(from *verifkit.TBlock) *wire.MsgHeaders {
	msg := wire.NewMsgHeaders()
	path := p.best.Path()
	for _, b := range path {
		if b.Height <= from.Height {
			continue
		}
		h := b.Header
		if err := msg.AddBlockHeader(&h); err != nil {
			break // 2000 per message
		}
	}
	return msg
}

// handle processes one message from the node.
func (p *fakePeer) handle(m wire.Message) {
	p.sentToPeer = append(p.sentToPeer, m)
	switch msg := m.(type) {
	case *wire.MsgVersion:
		p.versions = append(p.versions, msg)
		me := wire.NewNetAddressIPPort(net.IPv4(127, 0, 0, 1), 8333, 0)
		you := wire.NewNetAddressIPPort(net.IPv4(127, 0, 0, 1), 9333, 0)
		v := wire.NewMsgVersion(me, you, 7, int32(p.best.Height))
		p.toNode = append(p.toNode, peerMsg{msg: v, tag: "version"}, peerMsg{msg: wire.NewMsgVerAck(), tag: "verack"})
	case *wire.MsgGetHeaders:
		p.getHeaders = append(p.getHeaders, msg)
		from := p.tree.Genesis
		for _, h := range msg.BlockLocatorHashes {
			if b, ok := p.tree.ByHash[*h]; ok && p.best.OnPath(b) {
				from = b
				break
			}
		}
		hm := p.headersAfter(from)
		if n := len(hm.Headers); n > 0 {
			if b, ok := p.tree.ByHash[*hm.Headers[n-1].BlockHash()]; ok {
				p.knowsNodeHas = b
			}
		} else {
			p.knowsNodeHas = from
		}
		p.toNode = append(p.toNode, peerMsg{msg: hm, tag: "headers-response"})
	case *wire.MsgGetData:
		for _, inv := range msg.InvList {
			switch inv.Type {
			case wire.InvTypeBlock:
				p.blockRequests[p.conn] = append(p.blockRequests[p.conn], inv.Hash)
				if p.silentBlocks[inv.Hash] {
					continue
				}
				if b, ok := p.tree.ByHash[inv.Hash]; ok {
					p.toNode = append(p.toNode, peerMsg{msg: p.blockMsg(b), block: b, tag: "block"})
				}
			case wire.InvTypeTx:
				p.txRequests = append(p.txRequests, inv.Hash)
				if tx, ok := p.mempool[inv.Hash]; ok {
					p.toNode = append(p.toNode, peerMsg{msg: tx, tag: "tx"})
				}
			}
		}
	case *wire.MsgSendHeaders:
		p.sendHeaders = true
	case *wire.MsgMemPool:
		inv := wire.NewMsgInv()
		for h := range p.mempool {
			hh := h
			_ = inv.AddInvVect(wire.NewInvVect(wire.InvTypeTx, &hh))
		}
		if len(inv.InvList) > 0 {
			p.toNode = append(p.toNode, peerMsg{msg: inv, tag: "inv"})
		}
	}
}

// setBest changes the peer's best chain and announces it the way a Bitcoin node does: by headers
// if this connection asked for sendheaders and the node is known to have the parent of the first
// new header, otherwise by a block inv.
func (p *fakePeer) setBest(b *verifkit.TBlock) {
	old := p.best
	p.best = b
	fork := verifkit.ForkPoint(old, b)
	if p.sendHeaders && p.knowsNodeHas != nil && p.knowsNodeHas.OnPath(fork) {
		msg := wire.NewMsgHeaders()
		for _, x := range b.Path() {
			if x.Height > fork.Height {
				h := x.Header
				if err := msg.AddBlockHeader(&h); err != nil {
					break
				}
			}
		}
		p.knowsNodeHas = b
		p.toNode = append(p.toNode, peerMsg{msg: msg, tag: "headers-announce", bestAtSend: b})
		return
	}
	inv := wire.NewMsgInv()
	h := b.Hash
	_ = inv.AddInvVect(wire.NewInvVect(wire.InvTypeBlock, &h))
	p.toNode = append(p.toNode, peerMsg{msg: inv, tag: "inv-block"})
}

// ---------------------------------------------------------------------------------------------
// stub fetchers

type stubFetcher struct {
	outputs map[wire.OutPoint]*wire.TxOut
	txs     map[bitcoin.Hash32]*wire.MsgTx
}

func newStubFetcher() *stubFetcher {
	return &stubFetcher{outputs: map[wire.OutPoint]*wire.TxOut{}, txs: map[bitcoin.Hash32]*wire.MsgTx{}}
}

func (f *stubFetcher) addTx(tx *wire.MsgTx) {
	id := *tx.TxHash()
	f.txs[id] = tx
	for i, o := range tx.TxOut {
		f.outputs[wire.OutPoint{Hash: id, Index: uint32(i)}] = o
	}
}

func (f *stubFetcher) GetOutputs(ctx context.Context, ops []wire.OutPoint) ([]bitcoin.UTXO, error) {
	out := make([]bitcoin.UTXO, len(ops))
	for i, op := range ops {
		o, ok := f.outputs[op]
		if !ok {
			return nil, fmt.Errorf("unknown outpoint %s", op.String())
		}
		out[i] = bitcoin.UTXO{Hash: op.Hash, Index: op.Index, Value: o.Value, LockingScript: o.LockingScript}
	}
	return out, nil
}

func (f *stubFetcher) GetTx(ctx context.Context, txid bitcoin.Hash32) (*wire.MsgTx, error) {
	if tx, ok := f.txs[txid]; ok {
		return tx, nil
	}
	return nil, errors.New("not found")
}

// ---------------------------------------------------------------------------------------------
// step node

type stepNode struct {
	ctx      context.Context
	blockCtx context.Context // optional role-tagged context for ProcessBlock (harness-owned schedules)
	// optional hooks around ProcessBlock in blockStep (fault injection inside one block)
	beforeBlock func(h bitcoin.Hash32)
	afterBlock  func(h bitcoin.Hash32, err error)
	delivered   int // peer messages handed to the node so far (budget, see deliverNext)
	cfg         config.Config
	store       *verifkit.MemStore
	node        *Node
	h1, h2      *recHandler
	peer        *fakePeer
	fetch       *stubFetcher
	step        int
	subs        [][]byte
	contracts   bool

	blockThreadDead string // non-empty: processBlocks would have exited with this error
	txThreadDead    string // non-empty: processUnconfirmedTxs would have stopped the node
	restarts        int
	reconnects      int
	progress        int           // bumps whenever something observable happened (for quiescence)
	chainFrom       int           // lowest height tracked by nodeChain (boundary profiles track only the tail)
	shift           time.Duration // total logical time added through the hook
}

// stepBlockLimit: a step of the node that has not returned after this long is blocked. Steps take
// micro- to milliseconds; the limit only has to be far above what a loaded machine can add.
const stepBlockLimit = 90 * time.Second

// guard runs one call into the node in its own goroutine so that a call that never returns (a
// deadlock in the code under test) ends the case with a report instead of hanging the check. A
// panic of the call is re-raised in the caller, where every test recovers it into a violation.
func guard(what string, f func()) {
	type outcome struct {
		r     interface{}
		stack string
	}
	done := make(chan outcome, 1)
	go func() {
		defer func() {
			if r := recover(); r != nil {
				done <- outcome{r, shortStack()}
				return
			}
			done <- outcome{}
		}()
		f()
	}()
	select {
	case o := <-done:
		if o.r != nil {
			panic(fmt.Sprintf("%v [in %s]\n%s", o.r, what, o.stack))
		}
	case <-time.After(stepBlockLimit):
		panic(fmt.Sprintf("%s did not return within %v: the call is blocked (deadlock)", what, stepBlockLimit))
	}
}

func newStepNode(cfg config.Config, store *verifkit.MemStore, peer *fakePeer, fetch *stubFetcher) *stepNode {
	sn := &stepNode{ctx: quietCtx(), cfg: cfg, store: store, peer: peer, fetch: fetch}
	sn.h1 = &recHandler{sn: sn}
	sn.h2 = &recHandler{sn: sn}
	return sn
}

// boot creates a fresh Node on the store (as a process start does) and loads it.
func (sn *stepNode) boot() error {
	sn.node = NewNode(sn.cfg, sn.store, sn.fetch, sn.fetch)
	sn.node.RegisterHandler(sn.h1)
	sn.node.RegisterHandler(sn.h2)
	if len(sn.subs) > 0 {
		_ = sn.node.SubscribePushDatas(sn.ctx, sn.subs)
	}
	if sn.contracts {
		_ = sn.node.SubscribeContracts(sn.ctx)
	}
	sn.blockThreadDead, sn.txThreadDead = "", ""
	if err := sn.node.load(sn.ctx); err != nil {
		return err
	}
	_ = sn.node.outgoing.Open(100000)
	_ = sn.node.unconfTxChannel.Open(100000)
	return nil
}

// connect mirrors the start of one iteration of Run's connection loop.
func (sn *stepNode) connect() {
	sn.peer.newConnection()
	sn.node.state.MarkConnected()
	sn.node.peers.UpdateTime(sn.ctx, sn.cfg.NodeAddress)
	_ = sn.node.outgoing.Add(buildVersionMsg(sn.cfg.UserAgent, int32(sn.node.blocks.LastHeight())))
	sn.drain()
}

// stamp records, for messages just enqueued by the peer, which tip was its best at that time.
func (p *fakePeer) stamp() {
	for i := range p.toNode {
		if p.toNode[i].bestAtSend == nil {
			p.toNode[i].bestAtSend = p.best
		}
	}
}

// drain hands everything the node queued for sending to the peer.
func (sn *stepNode) drain() {
	defer sn.peer.stamp()
	for {
		select {
		case m := <-sn.node.outgoing.Channel:
			if _, pong := m.(*wire.MsgPong); !pong {
				sn.progress++
			}
			sn.trace("node -> peer: %s", sn.describe(m))
			sn.peer.handle(m)
		default:
			return
		}
	}
}

// deliver mirrors one iteration of monitorIncoming: check(), then handle one message.
func (sn *stepNode) deliver(m wire.Message) {
	sn.step++
	guard("check", func() { _ = sn.node.check(sn.ctx) })
	sn.drain()
	sn.trace("peer -> node: %s", sn.describe(m))
	guard("handleMessage "+m.Command(), func() { _ = sn.node.handleMessage(sn.ctx, m) })
	sn.drain()
}

// noteDelivered updates "the best-chain tip the peer has announced so far" from a headers message
// the node has finished handling: the highest header of the message on the chain that was the
// peer's best when it sent the message replaces the previous one if it is higher or on another
// branch.
func (sn *stepNode) noteDelivered(pm peerMsg) {
	if pm.bestAtSend == nil {
		return
	}
	var hashes []bitcoin.Hash32
	switch m := pm.msg.(type) {
	case *wire.MsgHeaders:
		for _, h := range m.Headers {
			hashes = append(hashes, *h.BlockHash())
		}
	case *wire.MsgInv:
		// a block inventory item is the other way a Bitcoin node announces a new tip
		for _, item := range m.InvList {
			if item.Type == wire.InvTypeBlock {
				hashes = append(hashes, item.Hash)
			}
		}
	default:
		return
	}
	for _, hash := range hashes {
		b, ok := sn.peer.tree.ByHash[hash]
		if !ok || !pm.bestAtSend.OnPath(b) {
			continue
		}
		d := sn.peer.deliveredTip
		if d == nil || b.Height > d.Height || !pm.bestAtSend.OnPath(d) {
			sn.peer.deliveredTip = b
		}
	}
}

// deliverNext delivers the i-th pending peer message (0 = FIFO head). Returns false if none.
func (sn *stepNode) deliverNext(i int) bool {
	if len(sn.peer.toNode) == 0 {
		return false
	}
	// A node that is not in sync and cannot make progress polls for headers with every message it
	// handles, and the fake peer answers every poll: "deliver while something is pending" would then
	// never end. No scenario needs anywhere near this many deliveries.
	sn.delivered++
	if sn.delivered > 150000 {
		return false
	}
	if i >= len(sn.peer.toNode) {
		i = 0
	}
	pm := sn.peer.toNode[i]
	sn.peer.toNode = append(sn.peer.toNode[:i], sn.peer.toNode[i+1:]...)
	sn.progress++
	sn.deliver(pm.msg)
	sn.noteDelivered(pm)
	return true
}

// ping makes the node run check() the way any incoming message does.
func (sn *stepNode) ping() {
	sn.deliver(wire.NewMsgPing(uint64(sn.step)))
}

// blockStep mirrors one iteration of processBlocks (refeeder inactive).
func (sn *stepNode) blockStep() bool {
	sn.step++
	if sn.blockThreadDead != "" {
		return false
	}
	block := sn.node.state.NextBlock()
	if block == nil {
		return false
	}
	sn.progress++
	bh := block.GetHeader()
	bctx := sn.ctx
	if sn.blockCtx != nil {
		bctx = sn.blockCtx
	}
	if sn.beforeBlock != nil {
		sn.beforeBlock(*bh.BlockHash())
	}
	var err0 error
	guard("ProcessBlock", func() { err0 = sn.node.ProcessBlock(bctx, block) })
	if sn.afterBlock != nil {
		sn.afterBlock(*bh.BlockHash(), err0)
	}
	sn.trace("blockstep %s -> %v", sn.describe(&wire.MsgBlock{Header: bh}), err0)
	if err := err0; err != nil {
		c := errors.Cause(err)
		if c != ErrBlockNotNextBlock && c != ErrBlockNotAdded {
			sn.blockThreadDead = err.Error()
			return true
		}
	}
	getBlocks := wire.NewMsgGetData()
	for {
		requestHash, _ := sn.node.state.GetNextBlockToRequest()
		if requestHash == nil {
			break
		}
		_ = getBlocks.AddInvVect(wire.NewInvVect(wire.InvTypeBlock, requestHash))
		if len(getBlocks.InvList) == wire.MaxInvPerMsg {
			sn.node.queueOutgoing(getBlocks)
			getBlocks = wire.NewMsgGetData()
		}
	}
	if len(getBlocks.InvList) > 0 {
		sn.node.queueOutgoing(getBlocks)
	}
	sn.drain()
	return true
}

// blockStepRaw is blockStep for use beside another goroutine that delivers messages: it touches no
// harness state (no step counter, no drain of the outgoing queue, no trace); the caller drains once
// both are done. Returns the error text of a failed ProcessBlock ("" otherwise).
func (sn *stepNode) blockStepRaw() string {
	block := sn.node.state.NextBlock()
	if block == nil {
		return ""
	}
	bctx := sn.ctx
	if sn.blockCtx != nil {
		bctx = sn.blockCtx
	}
	dead := ""
	var err0 error
	guard("ProcessBlock", func() { err0 = sn.node.ProcessBlock(bctx, block) })
	if err0 != nil {
		c := errors.Cause(err0)
		if c != ErrBlockNotNextBlock && c != ErrBlockNotAdded {
			return err0.Error()
		}
	}
	getBlocks := wire.NewMsgGetData()
	for {
		requestHash, _ := sn.node.state.GetNextBlockToRequest()
		if requestHash == nil {
			break
		}
		_ = getBlocks.AddInvVect(wire.NewInvVect(wire.InvTypeBlock, requestHash))
	}
	if len(getBlocks.InvList) > 0 {
		sn.node.queueOutgoing(getBlocks)
	}
	return dead
}

// txStep mirrors one iteration of processUnconfirmedTxs.
func (sn *stepNode) txStep() bool {
	sn.step++
	if sn.txThreadDead != "" {
		return false
	}
	select {
	case tx := <-sn.node.unconfTxChannel.Channel:
		sn.progress++
		var err error
		guard("processUnconfirmedTx", func() { err = sn.node.processUnconfirmedTx(sn.ctx, tx) })
		if err != nil {
			sn.txThreadDead = err.Error()
		}
		sn.drain()
		return true
	default:
		return false
	}
}

// passTime advances the node's clock by d (shifts every stored stamp back).
func (sn *stepNode) passTime(d time.Duration) {
	sn.shift += d
	sn.node.state.VerifShiftTime(d)
	sn.node.memPool.VerifShiftTime(d)
	sn.node.txs.VerifShiftTime(d)
	sn.node.txTracker.VerifShiftTime(d)
}

// saveAll mirrors the save sequence at the end of a Run iteration.
func (sn *stepNode) saveAll() {
	_ = sn.node.blocks.Save(sn.ctx)
	_ = sn.node.txs.Save(sn.ctx)
	_ = sn.node.peers.Save(sn.ctx)
}

// timeoutCheck mirrors monitorRequestTimeouts + the restart tail of Run. Returns true on restart.
func (sn *stepNode) timeoutCheck() bool {
	sn.step++
	if err := sn.node.state.CheckTimeouts(); err != nil {
		sn.reconnect()
		return true
	}
	return false
}

// reconnect mirrors: connection lost/timed out -> phased shutdown of threads -> save -> Reset ->
// next loop iteration connects again (same Node object).
func (sn *stepNode) reconnect() {
	sn.node.txTracker.Stop() // Run: "This will reduce network messages", first thing of the phased shutdown
	for sn.txStep() {
	}
	sn.saveAll()
	sn.node.state.Reset()
	// Run's restart tail re-enables the tracker after Reset (since fix 'tx tracker stays stopped after
	// a restart'); on a tree without that method the tracker stays stopped, as Run leaves it there
	if m := reflect.ValueOf(sn.node.txTracker).MethodByName("Start"); m.IsValid() {
		m.Call(nil)
	}
	sn.blockThreadDead = ""
	sn.txThreadDead = ""
	sn.reconnects++
	sn.progress++
	// channels are closed and reopened by Run
	_ = sn.node.outgoing.Close()
	_ = sn.node.unconfTxChannel.Close()
	_ = sn.node.outgoing.Open(100000)
	_ = sn.node.unconfTxChannel.Open(100000)
	sn.connect()
}

// cleanRestart mirrors Stop + a new process on the same storage.
func (sn *stepNode) cleanRestart() error {
	for sn.txStep() {
	}
	sn.saveAll()
	sn.restarts++
	sn.progress++
	if err := sn.boot(); err != nil {
		return err
	}
	sn.connect()
	return nil
}

// crashRestart starts a new process on the given storage image without any save.
func (sn *stepNode) crashRestart(image *verifkit.MemStore) error {
	sn.store = image
	sn.restarts++
	sn.progress++
	if err := sn.boot(); err != nil {
		return err
	}
	sn.connect()
	return nil
}

// nodeChain returns the node's chain hashes from height sn.chainFrom (normally 0) to its tip.
func (sn *stepNode) nodeChain() ([]bitcoin.Hash32, error) {
	n := sn.node.blocks.LastHeight()
	out := make([]bitcoin.Hash32, 0, n+1)
	for h := sn.chainFrom; h <= n; h++ {
		hash, err := sn.node.blocks.Hash(sn.ctx, h)
		if err != nil {
			return out, errors.Wrapf(err, "Hash(%d) with tip %d", h, n)
		}
		out = append(out, *hash)
	}
	return out, nil
}

// converged reports whether the node's chain equals the peer's best chain.
func (sn *stepNode) converged() (bool, string) {
	path := sn.peer.best.Path()
	if sn.node.blocks.LastHeight() != len(path)-1 {
		return false, fmt.Sprintf("node height %d, peer height %d", sn.node.blocks.LastHeight(), len(path)-1)
	}
	if *sn.node.blocks.LastHash() != sn.peer.best.Hash {
		return false, "tip hash differs at equal height"
	}
	return true, ""
}

// fairCompletion lets everything pending happen, firing time-outs only when nothing else can.
// Returns whether the goal was reached within the round budget.
func (sn *stepNode) fairCompletion(goal func() bool, rounds int) (bool, int) {
	idle := 0
	for r := 0; r < rounds; r++ {
		if goal() && len(sn.peer.toNode) == 0 {
			return true, r
		}
		before := sn.progress
		for sn.deliverNext(0) {
			for sn.blockStep() {
			}
			for sn.txStep() {
			}
		}
		sn.ping()
		for sn.blockStep() {
		}
		for sn.txStep() {
		}
		if sn.progress != before {
			idle = 0
			continue
		}
		idle++
		// nothing is pending and nothing moved: let the node's own time-outs fire
		sn.passTime(11 * time.Minute)
		sn.timeoutCheck()
		if idle > 6 {
			return goal(), r
		}
	}
	return goal(), rounds
}

// ---------------------------------------------------------------------------------------------
// helpers shared by the checks

func genesisHeader() wire.BlockHeader {
	st := verifkit.NewMemStore(true)
	n := NewNode(stepConfig(), st, nil, nil)
	_ = n.blocks.Load(quietCtx())
	h, _ := n.blocks.Header(quietCtx(), 0)
	return *h
}

var _ = handlers.UntrustedHeaderDelta
