//go:build verif

package spynode

// C04 inside histories: confirmations after reorganisations and of transactions that were only
// announced. Every block the node processes is judged by judgeBlockProofs (independent verifier,
// header the node holds at that height, true index, depth zero).

import (
	"fmt"
	"strings"
	"testing"

	"github.com/tokenized/pkg/bitcoin"
	"github.com/tokenized/pkg/wire"
	"github.com/tokenized/spynode/internal/verifkit"

	"pgregory.net/rapid"
)

// C04REvent is one step of a C04 history.
type C04REvent struct {
	Op    string `json:"op"`              // inv tx txstep deliver blockstep ping mine fork
	Txs   []int  `json:"txs,omitempty"`   // inv/tx: transactions; mine/fork: candidates for the new blocks
	Depth int    `json:"depth,omitempty"` // fork: how many blocks of the current best chain are orphaned
	Extra int    `json:"extra,omitempty"` // fork: the new branch has Depth+1+Extra blocks
}

// C04RScenario is a complete case.
type C04RScenario struct {
	Txs    []TxSpec    `json:"txs"`
	Parse  bool        `json:"parse,omitempty"`
	Events []C04REvent `json:"events"`
}

func c04rRun(sc *C04RScenario) (res *txHistResult) {
	res = &txHistResult{flags: map[string]bool{}}
	flags := res.flags
	fetch := newStubFetcher()
	txs := txUniverse(sc.Txs, fetch)
	idOf := map[bitcoin.Hash32]int{}
	for i, tx := range txs {
		idOf[*tx.TxHash()] = i
	}
	tree := verifkit.NewTree(genesisHeader())
	a1 := tree.Add(tree.Genesis, "a1", nil)
	sn, hv := syncedNode(tree, a1, a1, fetch, subUniverse, sc.Parse)
	if hv != nil {
		res.add("C04/"+hv.key, hv.what)
		return res
	}
	defer func() {
		if r := recover(); r != nil {
			res.add("C04/panic", fmt.Sprintf("panic at step %d: %v\n%s", sn.step, r, shortStack()))
		}
	}()
	contains := map[*verifkit.TBlock][]int{}
	everConfirmed := map[int]*verifkit.TBlock{} // last block the node processed that contained tx i
	announcedOnly := map[int]bool{}
	bodySeen := map[int]bool{}
	branches, mined := 0, 0
	tip := a1

	// eligible picks, in order, the candidates that can go into a block on top of parent
	pick := func(parent *verifkit.TBlock, inBlock []int, cands []int) []int {
		onPath := map[int]bool{}
		for _, b := range parent.Path() {
			for _, i := range contains[b] {
				onPath[i] = true
			}
		}
		for _, i := range inBlock {
			onPath[i] = true
		}
		var out []int
		for _, c := range cands {
			i := c % len(txs)
			if onPath[i] {
				continue
			}
			ok := true
			for j := range onPath {
				if sharesOutpoint(txs[i], txs[j]) {
					ok = false
				}
			}
			if !ok {
				continue
			}
			onPath[i] = true
			out = append(out, i)
		}
		return out
	}
	addBlock := func(parent *verifkit.TBlock, name string, list []int) *verifkit.TBlock {
		var body []*wire.MsgTx
		for _, i := range list {
			body = append(body, txs[i])
		}
		nb := tree.Add(parent, name, body)
		contains[nb] = list
		return nb
	}
	doBlockStep := func() bool {
		if sn.blockThreadDead != "" {
			return false
		}
		before := sn.node.blocks.LastHeight()
		if !sn.blockStep() {
			return false
		}
		if sn.node.blocks.LastHeight() == before+1 {
			b := tree.ByHash[*sn.node.blocks.LastHash()]
			if b == nil {
				return true
			}
			for _, i := range contains[b] {
				if !specRelevant(sc.Txs[i]) {
					continue
				}
				if prev, ok := everConfirmed[i]; ok && prev != b {
					flags["reconfirmed-after-reorg"] = true
				}
				if announcedOnly[i] && !bodySeen[i] {
					flags["confirmed-while-announced"] = true
				}
			}
			judgeBlockProofs(sn, sc.Txs, b, contains[b], idOf, res)
			for _, i := range contains[b] {
				everConfirmed[i] = b
			}
		}
		return true
	}
	doTxStep := func() bool {
		select {
		case td := <-sn.node.unconfTxChannel.Channel:
			sn.step++
			if i, ok := idOf[*td.Msg.TxHash()]; ok {
				bodySeen[i] = true
			}
			var err error
			guard("processUnconfirmedTx", func() { err = sn.node.processUnconfirmedTx(sn.ctx, td) })
			if err != nil {
				sn.txThreadDead = err.Error()
			}
			sn.drain()
			return true
		default:
			return false
		}
	}

	for _, ev := range sc.Events {
		sn.trace("event %s %v depth=%d extra=%d", ev.Op, ev.Txs, ev.Depth, ev.Extra)
		switch ev.Op {
		case "inv":
			inv := wire.NewMsgInv()
			for _, c := range ev.Txs {
				i := c % len(txs)
				h := *txs[i].TxHash()
				_ = inv.AddInvVect(wire.NewInvVect(wire.InvTypeTx, &h))
				sn.peer.mempool[h] = txs[i]
				if !bodySeen[i] {
					announcedOnly[i] = true
				}
			}
			sn.deliver(inv)
		case "tx":
			for _, c := range ev.Txs {
				sn.deliver(txs[c%len(txs)])
			}
		case "submit":
			// the application hands the node a transaction of its own (again): safe from the start
			for _, c := range ev.Txs {
				_ = sn.node.HandleTx(sn.ctx, txs[c%len(txs)])
				flags["local-submit"] = true
			}
		case "txstep":
			doTxStep()
		case "deliver":
			sn.deliverNext(0)
		case "blockstep":
			doBlockStep()
		case "ping":
			sn.ping()
		case "mine":
			mined++
			nb := addBlock(tip, fmt.Sprintf("%s%d_m%d", tip.Name[:1], tip.Height+1, mined), pick(tip, nil, ev.Txs))
			tip = nb
			sn.peer.setBest(nb)
			flags["block"] = true
		case "fork":
			depth := ev.Depth
			if depth > tip.Height-1 {
				depth = tip.Height - 1 // a1 is the start block and stays
			}
			if depth < 1 {
				continue
			}
			parent := tip
			for k := 0; k < depth; k++ {
				parent = parent.Parent
			}
			branches++
			tag := string(rune('a' + branches%25 + 1))
			cands := ev.Txs
			n := depth + 1 + ev.Extra
			for k := 0; k < n; k++ {
				// spread the candidates over the new blocks
				var mine []int
				for x, c := range cands {
					if x%n == k {
						mine = append(mine, c)
					}
				}
				parent = addBlock(parent, fmt.Sprintf("%s%d_%d", tag, parent.Height+1, branches), pick(parent, nil, mine))
			}
			tip = parent
			sn.peer.setBest(tip)
			flags["fork"] = true
		}
		if sn.blockThreadDead != "" || sn.txThreadDead != "" {
			break
		}
	}
	for round := 0; round < 40; round++ {
		moved := false
		for sn.deliverNext(0) {
			moved = true
		}
		for doTxStep() {
			moved = true
		}
		for doBlockStep() {
			moved = true
		}
		if !moved {
			sn.ping()
			if !sn.deliverNext(0) {
				break
			}
		}
	}
	if sn.blockThreadDead != "" {
		res.add("C04/block-thread-exit", "processing a valid block failed: "+sn.blockThreadDead)
	}
	if sn.txThreadDead != "" {
		res.add("C04/tx-thread-exit", "unconfirmed tx processing failed: "+sn.txThreadDead)
	}
	// C07's flag invariants over every notification of the history, per transaction
	sawUnsafe := map[bitcoin.Hash32]bool{}
	for k, e := range sn.h1.snapshot() {
		if e.Kind != "tx" && e.Kind != "update" {
			continue
		}
		i := idOf[e.TxID]
		st := e.State
		sn.trace("notification %d step %d: %s tx%d safe=%v unsafe=%v cancelled=%v depth=%d proof=%v", k, e.Step, e.Kind, i, st.Safe, st.UnSafe, st.Cancelled, st.UnconfirmedDepth, st.MerkleProof != nil)
		if st.Safe && st.UnSafe {
			res.add("C07/safe-and-unsafe", fmt.Sprintf("tx%d: notification %d (%s, step %d) has safe and unsafe both set", i, k, e.Kind, e.Step))
		}
		if st.Cancelled && !st.UnSafe {
			res.add("C07/cancelled-not-unsafe", fmt.Sprintf("tx%d: notification %d (%s, step %d) is cancelled but not unsafe", i, k, e.Kind, e.Step))
		}
		if sawUnsafe[e.TxID] && st.Safe {
			res.add("C07/safe-after-unsafe", fmt.Sprintf("tx%d was reported unsafe/cancelled and a later notification (%d, %s, step %d) says safe", i, k, e.Kind, e.Step))
			flags["safe-after-unsafe"] = true
		}
		if st.UnSafe || st.Cancelled {
			sawUnsafe[e.TxID] = true
			flags["unsafe-reported"] = true
		}
	}
	return res
}

func genC04R(t *rapid.T) *C04RScenario {
	sc := &C04RScenario{Txs: genTxSpecs(t, 9), Parse: rapid.Bool().Draw(t, "parse")}
	n := len(sc.Txs)
	some := func(max int) []int {
		var out []int
		for k, c := 0, rapid.IntRange(0, max).Draw(t, "cnt"); k < c; k++ {
			out = append(out, rapid.IntRange(0, n-1).Draw(t, "tx"))
		}
		return out
	}
	nev := rapid.IntRange(4, 40).Draw(t, "nev")
	for i := 0; i < nev; i++ {
		ev := C04REvent{Op: rapid.SampledFrom([]string{"inv", "tx", "tx", "txstep", "txstep", "deliver", "deliver", "deliver", "blockstep", "blockstep", "blockstep", "ping", "mine", "mine", "fork"}).Draw(t, "op")}
		switch ev.Op {
		case "inv", "tx":
			ev.Txs = []int{rapid.IntRange(0, n-1).Draw(t, "tx")}
		case "mine":
			ev.Txs = some(4)
		case "fork":
			ev.Depth = rapid.IntRange(1, 3).Draw(t, "depth")
			ev.Extra = rapid.IntRange(0, 2).Draw(t, "extra")
			ev.Txs = some(8)
		}
		sc.Events = append(sc.Events, ev)
	}
	return sc
}

const c04rRule = "step-mode histories on a synced node: up to 9 generated transactions (about 60% relevant), announced by inventory and/or delivered unconfirmed or first seen in a block, blocks mined on the peer's best chain and forks that orphan 1-3 processed or pending blocks and re-include generated subsets in the replacement blocks, with a generated interleaving of message delivery, tx-processing and block-processing steps; oracle after every processed block: each relevant tx of the block was notified in that step with a proof the independent verifier accepts against the header the node holds at that height, true index, depth zero; non-trivial = a relevant tx is confirmed again after a reorg orphaned its earlier block, or confirmed while only announced; distinct by scenario hash"

func c04rNontrivial(f map[string]bool) bool {
	return f["reconfirmed-after-reorg"] || f["confirmed-while-announced"]
}

func TestC04Reorg(t *testing.T) {
	rep := verifkit.NewReport("C04", "TestC04Reorg", c04rRule)
	defer rep.Finish(t)
	runOne := func(sc *C04RScenario) (*nodeViolation, map[string]bool) {
		res := c04rRun(sc)
		for _, v := range res.violations {
			if !strings.HasPrefix(v.key, "C04/") {
				continue // the flag invariants of C07 are judged by TestC07Reorg
			}
			if verifkit.Known(v.key) {
				rep.Exclude(v.key)
				continue
			}
			return v, res.flags
		}
		return nil, res.flags
	}
	replay := func(path string) {
		var sc C04RScenario
		if _, _, err := verifkit.LoadReplay(path, &sc); err != nil {
			t.Fatalf("replay %s: %v", path, err)
		}
		v, f := runOne(&sc)
		rep.Case(verifkit.Hash(sc), c04rNontrivial(f), "replay")
		if v != nil {
			rep.AddViolation(v.key, v.what, sc)
			t.Errorf("replay %s: %s: %s", path, v.key, v.what)
		}
	}
	if f := verifkit.ReplayFile("TestC04Reorg"); f != "" {
		replay(f)
		return
	}
	for _, f := range verifkit.RegressionFiles("TestC04Reorg") {
		replay(f)
	}
	rapid.Check(t, func(rt *rapid.T) {
		sc := genC04R(rt)
		v, f := runOne(sc)
		rep.Case(verifkit.Hash(sc), c04rNontrivial(f), flagList(f)...)
		if c04rNontrivial(f) && rep.WantSample() {
			rep.Sample(sc)
		}
		if v != nil {
			rep.Fail(v.key, v.what, sc)
			rt.Fatalf("%s: %s", v.key, v.what)
		}
	})
}

// TestC04History applies the per-block proof oracle to the shared transaction histories (untrusted
// peers, local submits, duplicates, clean restarts).
func TestC04History(t *testing.T) {
	txHistTest(t, "C04", "TestC04History", []string{"C04/"}, true,
		func(f map[string]bool) bool { return f["relevant-tx-confirmed"] },
		txHistRule+"; with clean restarts; oracle C04 after every processed block: each relevant tx of the block was notified in that step with a proof the independent verifier accepts against the header the node holds at that height, true index, depth zero; non-trivial = at least one relevant tx is in a processed block; distinct by scenario hash")
}

// TestC07Reorg judges C07's flag invariants over histories with reorganisations and transactions the
// application submits itself (also a second time, after a reorganisation made them unconfirmed
// again): no notification has safe and unsafe both set, cancelled implies unsafe, and nothing is
// called safe after it was reported unsafe or cancelled.
func genC07R(t *rapid.T) *C04RScenario {
	sc := &C04RScenario{Txs: genTxSpecs(t, 7), Parse: rapid.Bool().Draw(t, "parse")}
	n := len(sc.Txs)
	some := func(max int) []int {
		var out []int
		for k, c := 0, rapid.IntRange(0, max).Draw(t, "cnt"); k < c; k++ {
			out = append(out, rapid.IntRange(0, n-1).Draw(t, "tx"))
		}
		return out
	}
	nev := rapid.IntRange(4, 40).Draw(t, "nev")
	for i := 0; i < nev; i++ {
		ev := C04REvent{Op: rapid.SampledFrom([]string{"submit", "submit", "submit", "tx", "tx", "inv", "txstep", "txstep", "txstep", "deliver", "deliver", "deliver", "blockstep", "blockstep", "blockstep", "ping", "mine", "mine", "fork", "fork"}).Draw(t, "op")}
		switch ev.Op {
		case "inv", "tx", "submit":
			ev.Txs = []int{rapid.IntRange(0, n-1).Draw(t, "tx")}
		case "mine":
			ev.Txs = some(4)
		case "fork":
			ev.Depth = rapid.IntRange(1, 3).Draw(t, "depth")
			ev.Extra = rapid.IntRange(0, 2).Draw(t, "extra")
			ev.Txs = some(6)
		}
		sc.Events = append(sc.Events, ev)
	}
	return sc
}

const c07rRule = "step-mode histories on a synced node: up to 7 generated transactions (conflicting, chained, relevant or not) submitted by the application (safe from the start; also again later), delivered or announced by the trusted peer, mined, orphaned by forks of depth 1-3 and re-included or not in the replacement blocks, with a generated interleaving of delivery, tx and block steps; oracle over every notification of the history: never safe and unsafe together, cancelled implies unsafe, no safe after unsafe/cancelled for the same tx; non-trivial = a fork happened and some tx was reported unsafe or cancelled; distinct by scenario hash"

func TestC07Reorg(t *testing.T) {
	rep := verifkit.NewReport("C07", "TestC07Reorg", c07rRule)
	defer rep.Finish(t)
	nt := func(f map[string]bool) bool { return f["fork"] && f["unsafe-reported"] }
	runOne := func(sc *C04RScenario) (*nodeViolation, map[string]bool) {
		res := c04rRun(sc)
		for _, v := range res.violations {
			if !strings.HasPrefix(v.key, "C07/") {
				continue
			}
			if verifkit.Known(v.key) {
				rep.Exclude(v.key)
				continue
			}
			return v, res.flags
		}
		return nil, res.flags
	}
	replay := func(path string) {
		var sc C04RScenario
		if _, _, err := verifkit.LoadReplay(path, &sc); err != nil {
			t.Fatalf("replay %s: %v", path, err)
		}
		v, f := runOne(&sc)
		rep.Case(verifkit.Hash(sc), nt(f), "replay")
		if v != nil {
			rep.AddViolation(v.key, v.what, sc)
			t.Errorf("replay %s: %s: %s", path, v.key, v.what)
		}
	}
	if f := verifkit.ReplayFile("TestC07Reorg"); f != "" {
		replay(f)
		return
	}
	for _, f := range verifkit.RegressionFiles("TestC07Reorg") {
		replay(f)
	}
	rapid.Check(t, func(rt *rapid.T) {
		sc := genC07R(rt)
		v, f := runOne(sc)
		rep.Case(verifkit.Hash(sc), nt(f), flagList(f)...)
		if nt(f) && rep.WantSample() {
			rep.Sample(sc)
		}
		if v != nil {
			rep.Fail(v.key, v.what, sc)
			rt.Fatalf("%s: %s", v.key, v.what)
		}
	})
}
