//go:build verif

package spynode

// C09 (node level) — header-range request.

import (
	"fmt"
	"testing"

	"github.com/tokenized/pkg/wire"
	"github.com/tokenized/spynode/internal/verifkit"
	"github.com/tokenized/spynode/pkg/client"
)

// C09Range is one range query case.
type C09Range struct {
	Tip    int  `json:"tip"`
	Saved  bool `json:"saved"`
	Height int  `json:"height"`
	Count  int  `json:"count"`
}

func c09RangeRun(c *C09Range) (key, what string) {
	ctx := quietCtx()
	st := verifkit.NewMemStore(true)
	node := NewNode(stepConfig(), st, nil, nil)
	if err := node.load(ctx); err != nil {
		return "C09/range/harness", err.Error()
	}
	model := []wire.BlockHeader{}
	g, _ := node.blocks.Header(ctx, 0)
	model = append(model, *g)
	for i := 1; i <= c.Tip; i++ {
		h := wire.BlockHeader{Version: 1, PrevBlock: *model[i-1].BlockHash(), Timestamp: uint32(1600000000 + i), Nonce: uint32(i)}
		if err := node.blocks.Add(ctx, &h); err != nil {
			return "C09/range/harness", err.Error()
		}
		model = append(model, h)
	}
	if c.Saved {
		_ = node.blocks.Save(ctx)
	}
	var res *client.Headers
	var err error
	panicked := ""
	func() {
		defer func() {
			if r := recover(); r != nil {
				panicked = fmt.Sprint(r)
			}
		}()
		res, err = node.GetHeaders(ctx, c.Height, c.Count)
	}()
	d := fmt.Sprintf("GetHeaders(height=%d,count=%d) on tip %d: ", c.Height, c.Count, c.Tip)
	if panicked != "" {
		return "C09/range/panic", d + "panicked: " + panicked
	}
	if c.Height > c.Tip || c.Height < -1 {
		if err == nil && res != nil && len(res.Headers) > 0 {
			return "C09/range/out-of-range-value", d + fmt.Sprintf("returned %d headers", len(res.Headers))
		}
		return "", ""
	}
	if err != nil || res == nil {
		return "C09/range/error", d + fmt.Sprintf("err=%v", err)
	}
	// consecutive and consistent with StartHeight
	for i, h := range res.Headers {
		at := int(res.StartHeight) + i
		if at > c.Tip || h == nil || *h.BlockHash() != *model[at].BlockHash() {
			return "C09/range/content", d + fmt.Sprintf("header %d is not the header at height %d (StartHeight %d)", i, at, res.StartHeight)
		}
	}
	if c.Height >= 0 {
		want := c.Count
		if c.Tip-c.Height+1 < want {
			want = c.Tip - c.Height + 1
		}
		if len(res.Headers) != want {
			return "C09/range/count", d + fmt.Sprintf("returned %d headers, want min(count, tip-height+1) = %d", len(res.Headers), want)
		}
		if want > 0 && int(res.StartHeight) != c.Height {
			return "C09/range/start", d + fmt.Sprintf("StartHeight=%d", res.StartHeight)
		}
		return "", ""
	}
	// -1: the most recent ones: at most count, ending at the tip, at least one when count >= 1
	if len(res.Headers) > c.Count {
		return "C09/range/count", d + fmt.Sprintf("returned %d headers for max count %d", len(res.Headers), c.Count)
	}
	if c.Count >= 1 {
		if len(res.Headers) == 0 {
			return "C09/range/count", d + "returned no headers"
		}
		if int(res.StartHeight)+len(res.Headers)-1 != c.Tip {
			return "C09/range/most-recent", d + fmt.Sprintf("headers %d..%d do not end at the tip", res.StartHeight, int(res.StartHeight)+len(res.Headers)-1)
		}
	}
	return "", ""
}

func TestC09Range(t *testing.T) {
	rep := verifkit.NewReport("C09", "TestC09Range", "node-level header-range request: all (tip, saved?, height, count) over tips {0,1,5,999,1000,1005,2003}, heights {-1001,-1000,-5,-2,-1,0,1,2,tip-1,tip,tip+1,tip+7,998..1002} and counts {0,1,2,3,5,tip,tip+5,1000}; non-trivial = request truncated by the tip, height -1, or out of range; exhaustive over that grid")
	defer rep.Finish(t)
	if f := verifkit.ReplayFile("TestC09Range"); f != "" {
		var c C09Range
		if _, _, err := verifkit.LoadReplay(f, &c); err != nil {
			t.Fatal(err)
		}
		rep.Case(verifkit.Hash(c), true, "replay")
		if k, w := c09RangeRun(&c); k != "" {
			rep.AddViolation(k, w, c)
			t.Errorf("%s: %s", k, w)
		}
		return
	}
	seen := map[string]bool{}
	for _, tip := range []int{0, 1, 5, 999, 1000, 1005, 2003} {
		for _, saved := range []bool{false, true} {
			hs := []int{-1001, -1000, -5, -2, -1, 0, 1, 2, tip - 1, tip, tip + 1, tip + 7, 998, 999, 1000, 1001, 1002}
			cs := []int{0, 1, 2, 3, 5, tip, tip + 5, 1000}
			for _, h := range hs {
				for _, cnt := range cs {
					c := &C09Range{Tip: tip, Saved: saved, Height: h, Count: cnt}
					k, w := c09RangeRun(c)
					nt := h == -1 || h > tip || h < -1 || h+cnt-1 > tip
					rep.Case(verifkit.Hash(c), nt)
					if nt && rep.WantSample() && tip == 1005 && h == 1003 {
						rep.Sample(c)
					}
					if k != "" && !seen[k] {
						seen[k] = true
						if verifkit.Known(k) {
							rep.Exclude(k)
							continue
						}
						rep.AddViolation(k, w, c)
						t.Errorf("%s: %s", k, w)
					}
				}
			}
		}
	}
	rep.Exhaustive = true
	if rep.WantSample() {
		rep.Sample(&C09Range{Tip: 1005, Saved: true, Height: 1003, Count: 5})
	}
}
