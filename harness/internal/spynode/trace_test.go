//go:build verif

package spynode

import (
	"fmt"
	"os"

	"github.com/tokenized/pkg/wire"
)

var traceOn = os.Getenv("VERIF_TRACE") != ""

func (sn *stepNode) trace(format string, args ...interface{}) {
	if traceOn {
		fmt.Fprintf(os.Stderr, "[trace step %d h=%d req=%d ready=%v] %s\n", sn.step, sn.node.blocks.LastHeight(), sn.node.state.TotalBlockRequestCount(), sn.node.state.IsReady(), fmt.Sprintf(format, args...))
	}
}

func (sn *stepNode) describe(m wire.Message) string {
	switch msg := m.(type) {
	case *wire.MsgHeaders:
		s := "headers["
		for _, h := range msg.Headers {
			if b, ok := sn.peer.tree.ByHash[*h.BlockHash()]; ok {
				s += b.Name + " "
			} else {
				s += "? "
			}
		}
		return s + "]"
	case *wire.MsgGetHeaders:
		s := "getheaders["
		for _, h := range msg.BlockLocatorHashes {
			if b, ok := sn.peer.tree.ByHash[*h]; ok {
				s += b.Name + " "
			} else {
				s += "? "
			}
		}
		return s + "]"
	case *wire.MsgGetData:
		s := "getdata["
		for _, i := range msg.InvList {
			if b, ok := sn.peer.tree.ByHash[i.Hash]; ok {
				s += b.Name + " "
			} else {
				s += fmt.Sprintf("%v:%s ", i.Type, i.Hash.String()[:6])
			}
		}
		return s + "]"
	case *wire.MsgInv:
		s := "inv["
		for _, i := range msg.InvList {
			s += fmt.Sprintf("%v:%s ", i.Type, i.Hash.String()[:6])
		}
		return s + "]"
	case *wire.MsgTx:
		return "tx " + msg.TxHash().String()[:6]
	case *wire.MsgBlock:
		if b, ok := sn.peer.tree.ByHash[*msg.Header.BlockHash()]; ok {
			return "block " + b.Name
		}
	case *wire.MsgParseBlock:
		if b, ok := sn.peer.tree.ByHash[*msg.Header.BlockHash()]; ok {
			return "parseblock " + b.Name
		}
	}
	return m.Command()
}
