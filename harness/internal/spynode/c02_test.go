//go:build verif

package spynode

// C02 — Stored chain stays hash-linked and grows only at its tip for any trusted-peer input.

import (
	"fmt"
	"strings"
	"testing"

	"github.com/tokenized/pkg/bitcoin"
	"github.com/tokenized/pkg/wire"
	"github.com/tokenized/spynode/internal/verifkit"

	"pgregory.net/rapid"
)

// TreeSpec describes a generated block tree: a main chain a1..aMain and branches.
type TreeSpec struct {
	Main     int          `json:"main"`
	Branches []BranchSpec `json:"branches,omitempty"`
}

// BranchSpec is a branch forking after main-chain height Fork (or after another branch's block).
type BranchSpec struct {
	Tag  string `json:"tag"`            // b, c, d ...
	From string `json:"from,omitempty"` // parent block name; default a<Fork>
	Fork int    `json:"fork"`
	Len  int    `json:"len"`
}

func buildTree(spec *TreeSpec) *verifkit.Tree {
	t := verifkit.NewTree(genesisHeader())
	prev := t.Genesis
	for h := 1; h <= spec.Main; h++ {
		prev = t.Add(prev, verifkit.ChainName("a", h), nil)
	}
	for _, br := range spec.Branches {
		from := br.From
		if from == "" {
			from = verifkit.ChainName("a", br.Fork)
			if br.Fork == 0 {
				from = "g"
			}
		}
		p, ok := t.ByName[from]
		if !ok {
			continue
		}
		for i := 1; i <= br.Len; i++ {
			p = t.Add(p, verifkit.ChainName(br.Tag, p.Height+1), nil)
		}
	}
	return t
}

// C02Op is one step of a C02 scenario.
type C02Op struct {
	Op    string   `json:"op"`              // headers block blockstep ping
	Names []string `json:"names,omitempty"` // headers: block names; "u:<parent>:<k>" = header unknown to the tree
	Block string   `json:"block,omitempty"`
	Parse bool     `json:"parse,omitempty"`
}

// C02Scenario is a complete C02 case.
type C02Scenario struct {
	Bulk  int      `json:"bulk,omitempty"` // boundary profile: deliver a1..a<Bulk> honestly first and save
	Tree  TreeSpec `json:"tree"`
	Start string   `json:"start"` // start block name ("" = never appears)
	Ops   []C02Op  `json:"ops"`
}

type nodeViolation struct{ key, what string }

func unknownHeader(t *verifkit.Tree, name string) wire.BlockHeader {
	// name = u:<parent>:<k>
	parts := strings.Split(name, ":")
	var prev bitcoin.Hash32
	if len(parts) >= 2 {
		if p, ok := t.ByName[parts[1]]; ok {
			prev = p.Hash
		} else {
			prev[0], prev[1] = 0xee, byte(len(parts[1]))
		}
	}
	h := wire.BlockHeader{Version: 2, PrevBlock: prev, Timestamp: 1700000000, Bits: 0x1d00ffff}
	for i, c := range []byte(name) {
		h.MerkleRoot[i%32] ^= c
	}
	return h
}

func chainsOf(sn *stepNode) ([]bitcoin.Hash32, *nodeViolation) {
	c, err := sn.nodeChain()
	if err != nil {
		return c, &nodeViolation{"C02/chain/unreadable", err.Error()}
	}
	return c, nil
}

// checkChainInvariants verifies I1 and I2 on the node's stored chain.
func checkChainInvariants(sn *stepNode, universe []bitcoin.Hash32, where string) *nodeViolation {
	n := sn.node.blocks.LastHeight()
	var prev *bitcoin.Hash32
	onChain := map[bitcoin.Hash32]int{}
	sampled := n > 200
	for h := 0; h <= n; h++ {
		if sampled && !(h <= 3 || h >= n-30 || (h%1000 >= 985 || h%1000 <= 15) || h%97 == 0) {
			prev = nil
			continue
		}
		hd, err := sn.node.blocks.Header(sn.ctx, h)
		if err != nil {
			return &nodeViolation{"C02/chain/unreadable", fmt.Sprintf("%s: Header(%d) with tip %d: %v", where, h, n, err)}
		}
		hash, err := sn.node.blocks.Hash(sn.ctx, h)
		if err != nil || *hash != *hd.BlockHash() {
			return &nodeViolation{"C02/chain/hash-header-mismatch", fmt.Sprintf("%s: Hash(%d) != hash of Header(%d)", where, h, h)}
		}
		if h >= 1 && prev != nil && hd.PrevBlock != *prev {
			return &nodeViolation{"C02/I1/unlinked", fmt.Sprintf("%s: block at height %d does not have the block at height %d as parent (tip %d)", where, h, h-1, n)}
		}
		if got, ok := sn.node.blocks.Height(hash); !ok || got != h {
			return &nodeViolation{"C02/I2/height-of-hash", fmt.Sprintf("%s: Height(Hash(%d)) = (%d,%v)", where, h, got, ok)}
		}
		if _, dup := onChain[*hash]; dup {
			return &nodeViolation{"C02/I2/duplicate-hash", fmt.Sprintf("%s: hash at height %d appears twice", where, h)}
		}
		onChain[*hash] = h
		prev = hash
	}
	for i := range universe {
		x := universe[i]
		got, ok := sn.node.blocks.Height(&x)
		h, on := onChain[x]
		if sampled {
			// only part of the chain was walked: check the by-hash answer against the by-height one
			if ok {
				if hh, err := sn.node.blocks.Hash(sn.ctx, got); err != nil || *hh != x {
					return &nodeViolation{"C02/I2/hash-view", fmt.Sprintf("%s: Height(x)=%d but Hash(%d) is not x", where, got, got)}
				}
			}
			if sn.node.blocks.Contains(&x) != ok {
				return &nodeViolation{"C02/I2/hash-view", where + ": Contains and Height disagree"}
			}
			continue
		}
		if ok != on || sn.node.blocks.Contains(&x) != on || (ok && got != h) {
			return &nodeViolation{"C02/I2/hash-view", fmt.Sprintf("%s: by-hash view (height %d, known %v) disagrees with by-height view (on chain %v at %d)", where, got, ok, on, h)}
		}
	}
	if lh := sn.node.blocks.LastHash(); lh == nil || prev == nil || *lh != *prev {
		return &nodeViolation{"C02/chain/last-hash", where + ": LastHash is not the hash at LastHeight"}
	}
	return nil
}

// checkCallbacks verifies I3 over the header callbacks seen so far, given per-step chain heights.
func checkCallbacks(sn *stepNode, shrinkBetween func(fromStep, toStep, toHeight int) bool) *nodeViolation {
	e1, e2 := sn.h1.snapshot(), sn.h2.snapshot()
	var hs []recEvent
	for _, e := range e1 {
		if e.Kind == "headers" {
			hs = append(hs, e)
		}
	}
	var hs2 []recEvent
	for _, e := range e2 {
		if e.Kind == "headers" {
			hs2 = append(hs2, e)
		}
	}
	if len(hs) != len(hs2) {
		return &nodeViolation{"C02/I3/handlers-differ", fmt.Sprintf("handler 1 saw %d header callbacks, handler 2 saw %d", len(hs), len(hs2))}
	}
	for i, e := range hs {
		if hs2[i].Height != e.Height || *hs2[i].Header.BlockHash() != *e.Header.BlockHash() {
			return &nodeViolation{"C02/I3/handlers-differ", fmt.Sprintf("header callback %d differs between the two handlers", i)}
		}
		if e.Height < 1 || e.NodePrevAt == nil || e.Header.PrevBlock != *e.NodePrevAt {
			return &nodeViolation{"C02/I3/callback-parent", fmt.Sprintf("HandleHeaders(height %d) announced a block whose parent is not the block the node holds at height %d", e.Height, e.Height-1)}
		}
		if e.Height != e.ChainHeight {
			return &nodeViolation{"C02/I3/callback-height", fmt.Sprintf("HandleHeaders announced height %d while the node's tip was %d", e.Height, e.ChainHeight)}
		}
		if i > 0 {
			p := hs[i-1]
			if p.Conn != e.Conn {
				continue // a restart in between: the next process may re-announce from its stored tip
			}
			if e.Height == p.Height+1 {
				continue
			}
			if e.Height > p.Height+1 {
				return &nodeViolation{"C02/I3/gap", fmt.Sprintf("HandleHeaders heights jump from %d to %d", p.Height, e.Height)}
			}
			if !shrinkBetween(p.Step, e.Step, e.Height-1) {
				return &nodeViolation{"C02/I3/restart-without-reorg", fmt.Sprintf("HandleHeaders went from height %d back to %d without a reorganisation to height %d in between", p.Height, e.Height, e.Height-1)}
			}
		}
	}
	return nil
}

func c02Run(sc *C02Scenario) (v *nodeViolation, flags map[string]bool) {
	flags = map[string]bool{}
	tree := buildTree(&sc.Tree)
	cfg := stepConfig()
	if b, ok := tree.ByName[sc.Start]; ok {
		cfg.StartHash = b.Hash
	} else {
		cfg.StartHash[0] = 0x77
	}
	main := tree.ByName[verifkit.ChainName("a", sc.Tree.Main)]
	if main == nil {
		main = tree.Genesis
	}
	peer := newFakePeer(tree, main)
	sn := newStepNode(cfg, verifkit.NewMemStore(true), peer, newStubFetcher())
	defer func() {
		if r := recover(); r != nil {
			v = &nodeViolation{"C02/panic", fmt.Sprintf("panic at step %d: %v\n%s", sn.step, r, shortStack())}
		}
	}()
	if err := sn.boot(); err != nil {
		return &nodeViolation{"C02/harness/boot", err.Error()}, flags
	}
	sn.connect()
	sn.deliverNext(0) // version
	sn.deliverNext(0) // verack; the node's first getheaders goes unanswered
	peer.toNode = nil

	var universe []bitcoin.Hash32
	for h := range tree.ByHash {
		universe = append(universe, h)
	}
	if sc.Bulk > 0 {
		flags["boundary-profile"] = true
		msg := wire.NewMsgHeaders()
		for h := 1; h <= sc.Bulk && h <= sc.Tree.Main; h++ {
			hd := tree.ByName[verifkit.ChainName("a", h)].Header
			_ = msg.AddBlockHeader(&hd)
		}
		sn.deliver(msg)
		sn.deliver(wire.NewMsgHeaders()) // empty headers: in sync, saves the block files
		peer.toNode = nil
		sn.chainFrom = sc.Bulk - 40
		for _, br := range sc.Tree.Branches {
			if br.Fork-5 < sn.chainFrom {
				sn.chainFrom = br.Fork - 5
			}
		}
		if sn.chainFrom < 0 {
			sn.chainFrom = 0
		}
	}
	type snap struct {
		step  int
		chain []bitcoin.Hash32
	}
	prevChain, cv := chainsOf(sn)
	if cv != nil {
		return cv, flags
	}
	snaps := []snap{{sn.step, prevChain}}
	startLen := len(prevChain)
	shrinkBetween := func(from, to, toHeight int) bool {
		for i := 1; i < len(snaps); i++ {
			if snaps[i].step > from && snaps[i-1].step <= to {
				a, b := snaps[i-1].chain, snaps[i].chain
				l := 0
				for l < len(a) && l < len(b) && a[l] == b[l] {
					l++
				}
				// chains are listed from sn.chainFrom upward: position l-1 is height chainFrom+l-1
				if l < len(a) && sn.chainFrom+l-1 == toHeight {
					return true
				}
			}
		}
		return false
	}

	for i, op := range sc.Ops {
		where := fmt.Sprintf("op %d %s", i, op.Op)
		var namedParents []bitcoin.Hash32
		switch op.Op {
		case "headers":
			msg := wire.NewMsgHeaders()
			seen := map[string]bool{}
			lastH := -1
			for _, n := range op.Names {
				var h wire.BlockHeader
				if b, ok := tree.ByName[n]; ok {
					h = b.Header
					if seen[n] {
						flags["duplicate"] = true
					}
					if b.Height < lastH {
						flags["out-of-order"] = true
					}
					lastH = b.Height
				} else {
					h = unknownHeader(tree, n)
					u := *h.BlockHash()
					universe = append(universe, u)
					flags["unknown"] = true
				}
				seen[n] = true
				namedParents = append(namedParents, h.PrevBlock)
				hh := h
				_ = msg.AddBlockHeader(&hh)
			}
			if len(op.Names) == 0 {
				flags["empty-headers"] = true
			}
			sn.deliver(msg)
		case "block":
			b, ok := tree.ByName[op.Block]
			if !ok {
				continue
			}
			if !sn.node.state.BlockIsRequested(&b.Hash) {
				flags["unsolicited"] = true
			}
			var m wire.Message = b.Msg()
			if op.Parse {
				if pm, err := verifkit.ParseMsg(b.Msg()); err == nil {
					m = pm
				}
			}
			sn.deliver(m)
		case "blockstep":
			sn.blockStep()
		case "ping":
			sn.ping()
		}
		peer.toNode = nil // the peer is not assumed to answer anything
		if sn.blockThreadDead != "" {
			return &nodeViolation{"C02/block-thread-exit", fmt.Sprintf("%s: block processing failed and its thread would exit: %s", where, sn.blockThreadDead)}, flags
		}
		if v := checkChainInvariants(sn, universe, where); v != nil {
			return v, flags
		}
		chain, cv := chainsOf(sn)
		if cv != nil {
			return cv, flags
		}
		// I4: how the chain moved in this step
		l := 0
		for l < len(chain) && l < len(prevChain) && chain[l] == prevChain[l] {
			l++
		}
		changed := len(chain) != len(prevChain) || l != len(chain)
		if changed {
			if l < len(prevChain) {
				flags["reorg"] = true
				if op.Op != "headers" {
					return &nodeViolation{"C02/I4/shrink-outside-headers", fmt.Sprintf("%s: the chain was truncated from height %d to %d by a step that is not a headers message", where, len(prevChain)-1, l-1)}, flags
				}
				// The truncation point q can lie below the common prefix (a re-added header may equal
				// an old one): some named parent must sit on the old chain at a height q <= l-1.
				okParent := false
				for _, p := range namedParents {
					for q := 0; q <= l-1 && q < len(prevChain); q++ {
						if p == prevChain[q] {
							okParent = true
						}
					}
				}
				if !okParent {
					return &nodeViolation{"C02/I4/shrink-to-unnamed-parent", fmt.Sprintf("%s: the chain was truncated from height %d to height %d (now %d), which no header of the message names as parent", where, len(prevChain)-1, l-1, len(chain)-1)}, flags
				}
			}
			if op.Op == "headers" {
				named := map[bitcoin.Hash32]bool{}
				for _, n := range op.Names {
					if b, ok := tree.ByName[n]; ok {
						named[b.Hash] = true
					} else {
						uh := unknownHeader(tree, n)
						named[*uh.BlockHash()] = true
					}
				}
				for h := l; h < len(chain); h++ {
					if !named[chain[h]] {
						return &nodeViolation{"C02/I4/unnamed-block-added", fmt.Sprintf("%s: the block now at height %d was not in this headers message", where, h)}, flags
					}
				}
			}
			if op.Op == "block" || op.Op == "ping" {
				return &nodeViolation{"C02/I4/changed-by-" + op.Op, fmt.Sprintf("%s: the chain changed (height %d -> %d) in a step that only buffers a block or checks state", where, len(prevChain)-1, len(chain)-1)}, flags
			}
			if op.Op == "blockstep" && len(chain) != len(prevChain)+1 {
				return &nodeViolation{"C02/I4/blockstep-extent", fmt.Sprintf("%s: one block-processing step moved the height from %d to %d", where, len(prevChain)-1, len(chain)-1)}, flags
			}
		}
		if len(chain) > startLen {
			flags["advanced"] = true
		}
		prevChain = chain
		snaps = append(snaps, snap{sn.step, chain})
		if v := checkCallbacks(sn, shrinkBetween); v != nil {
			return v, flags
		}
	}
	// final: every callback's header is what the node held at that height at that time is implied by
	// the parent/height checks; make sure both handlers saw no in-sync without the other
	return nil, flags
}

func c02Nontrivial(f map[string]bool) bool {
	return (f["unsolicited"] || f["duplicate"] || f["out-of-order"] || f["unknown"]) && f["advanced"]
}

func flagList(f map[string]bool) []string {
	var l []string
	for k, v := range f {
		if v {
			l = append(l, k)
		}
	}
	return l
}

func genTreeSpec(t *rapid.T, maxMain int) TreeSpec {
	spec := TreeSpec{Main: rapid.IntRange(2, maxMain).Draw(t, "main")}
	nb := rapid.IntRange(0, 3).Draw(t, "branches")
	for i := 0; i < nb; i++ {
		br := BranchSpec{Tag: string(rune('b' + i)), Fork: rapid.IntRange(0, spec.Main-1).Draw(t, "fork"), Len: rapid.IntRange(1, 6).Draw(t, "blen")}
		if i > 0 && rapid.IntRange(0, 4).Draw(t, "nested") == 0 {
			// fork off the previous branch
			p := spec.Branches[i-1]
			br.From = verifkit.ChainName(p.Tag, p.Fork+1)
			br.Fork = p.Fork + 1
		}
		spec.Branches = append(spec.Branches, br)
	}
	return spec
}

func allNames(spec *TreeSpec) []string {
	names := []string{}
	for h := 1; h <= spec.Main; h++ {
		names = append(names, verifkit.ChainName("a", h))
	}
	for _, br := range spec.Branches {
		for i := 1; i <= br.Len; i++ {
			names = append(names, verifkit.ChainName(br.Tag, br.Fork+i))
		}
	}
	return names
}

func genC02(t *rapid.T) *C02Scenario {
	every := 24
	if verifkit.Tier() == "thorough" {
		every = 9
	}
	if rapid.IntRange(0, every).Draw(t, "profile") == 0 {
		return genC02Boundary(t)
	}
	sc := &C02Scenario{Tree: genTreeSpec(t, 14)}
	names := allNames(&sc.Tree)
	switch rapid.IntRange(0, 5).Draw(t, "startkind") {
	case 0:
		sc.Start = "" // never found
	case 1:
		sc.Start = "a1"
	default:
		sc.Start = verifkit.ChainName("a", rapid.IntRange(1, sc.Tree.Main).Draw(t, "start"))
	}
	nops := rapid.IntRange(3, 40).Draw(t, "nops")
	cursor := 1 // next main-chain height an honest-ish headers run starts from
	for i := 0; i < nops; i++ {
		switch rapid.SampledFrom([]string{"run", "run", "run", "mixed", "block", "block", "block", "blockstep", "blockstep", "blockstep", "ping", "empty"}).Draw(t, "kind") {
		case "run":
			// consecutive headers along one chain prefix (main or a branch)
			prefix := "a"
			lo, hi := cursor, sc.Tree.Main
			if len(sc.Tree.Branches) > 0 && rapid.IntRange(0, 2).Draw(t, "usebranch") == 0 {
				br := sc.Tree.Branches[rapid.IntRange(0, len(sc.Tree.Branches)-1).Draw(t, "br")]
				prefix, lo, hi = br.Tag, br.Fork+1, br.Fork+br.Len
			}
			if lo > hi {
				lo = hi
			}
			from := rapid.IntRange(max1(lo-2), hi).Draw(t, "from")
			n := rapid.IntRange(1, 12).Draw(t, "n")
			var ns []string
			for h := from; h < from+n && h <= hi; h++ {
				if prefix != "a" && h < lo {
					ns = append(ns, verifkit.ChainName("a", h))
				} else {
					ns = append(ns, verifkit.ChainName(prefix, h))
				}
			}
			if prefix == "a" && from+n > cursor {
				cursor = from + n
			}
			sc.Ops = append(sc.Ops, C02Op{Op: "headers", Names: ns})
		case "mixed":
			n := rapid.IntRange(1, 6).Draw(t, "n")
			var ns []string
			for k := 0; k < n; k++ {
				if rapid.IntRange(0, 4).Draw(t, "unk") == 0 {
					parent := rapid.SampledFrom(append([]string{"g", "zz"}, names...)).Draw(t, "uparent")
					ns = append(ns, fmt.Sprintf("u:%s:%d", parent, rapid.IntRange(0, 3).Draw(t, "uk")))
				} else {
					ns = append(ns, rapid.SampledFrom(names).Draw(t, "name"))
				}
			}
			sc.Ops = append(sc.Ops, C02Op{Op: "headers", Names: ns})
		case "block":
			sc.Ops = append(sc.Ops, C02Op{Op: "block", Block: rapid.SampledFrom(names).Draw(t, "block"), Parse: rapid.Bool().Draw(t, "parse")})
		case "blockstep":
			sc.Ops = append(sc.Ops, C02Op{Op: "blockstep"})
		case "ping":
			sc.Ops = append(sc.Ops, C02Op{Op: "ping"})
		case "empty":
			sc.Ops = append(sc.Ops, C02Op{Op: "headers"})
		}
	}
	return sc
}

func max1(a int) int {
	if a < 1 {
		return 1
	}
	return a
}

const c02Rule = "step-mode sequences of trusted-peer messages over a generated block tree (main chain <= 14, up to 3 branches incl. nested): headers messages that are consecutive runs, shuffled/duplicated/gapped mixes from dead branches and headers unknown to the tree, empty headers; block messages for any tree block (requested or not, both message forms); block-processing steps and pings placed anywhere; peer assumed to answer nothing; invariants I1-I4 after every step; non-trivial = contains an unsolicited, duplicate, out-of-order or unknown element and the chain advanced; distinct by scenario hash"

func nodeReplay(t *testing.T, rep *verifkit.Report, path string, run func(path string) (*nodeViolation, map[string]bool, interface{}), nontrivial func(map[string]bool) bool) {
	v, f, sc := run(path)
	rep.Case(verifkit.Hash(sc), nontrivial(f), "replay")
	if v != nil {
		rep.AddViolation(v.key, v.what, sc)
		t.Errorf("replay %s: %s: %s", path, v.key, v.what)
	}
}

func TestC02Chain(t *testing.T) {
	rep := verifkit.NewReport("C02", "TestC02Chain", c02Rule)
	defer rep.Finish(t)
	run := func(path string) (*nodeViolation, map[string]bool, interface{}) {
		var sc C02Scenario
		if _, _, err := verifkit.LoadReplay(path, &sc); err != nil {
			t.Fatalf("replay %s: %v", path, err)
		}
		v, f := c02Run(&sc)
		return v, f, sc
	}
	if f := verifkit.ReplayFile("TestC02Chain"); f != "" {
		nodeReplay(t, rep, f, run, c02Nontrivial)
		return
	}
	for _, f := range verifkit.RegressionFiles("TestC02Chain") {
		nodeReplay(t, rep, f, run, c02Nontrivial)
	}
	rapid.Check(t, func(rt *rapid.T) {
		sc := genC02(rt)
		v, f := c02Run(sc)
		rep.Case(verifkit.Hash(sc), c02Nontrivial(f), flagList(f)...)
		if c02Nontrivial(f) && rep.WantSample() {
			rep.Sample(sc)
		}
		if v != nil {
			if verifkit.Known(v.key) {
				rep.Exclude(v.key)
				return
			}
			rep.Fail(v.key, v.what, sc)
			rt.Fatalf("%s: %s", v.key, v.what)
		}
	})
}

// genC02Boundary builds a chain that straddles the 1000-header file boundary: the first Bulk
// headers arrive honestly and are saved, then hostile traffic names only blocks near the tip.
func genC02Boundary(t *rapid.T) *C02Scenario {
	main := rapid.IntRange(1001, 1012).Draw(t, "main")
	sc := &C02Scenario{Tree: TreeSpec{Main: main}, Bulk: rapid.IntRange(998, main).Draw(t, "bulk")}
	nb := rapid.IntRange(1, 2).Draw(t, "branches")
	for i := 0; i < nb; i++ {
		sc.Tree.Branches = append(sc.Tree.Branches, BranchSpec{Tag: string(rune('b' + i)),
			Fork: rapid.IntRange(990, main-1).Draw(t, "fork"), Len: rapid.IntRange(1, 14).Draw(t, "blen")})
	}
	if rapid.Bool().Draw(t, "startfound") {
		sc.Start = verifkit.ChainName("a", rapid.IntRange(sc.Bulk, main).Draw(t, "start"))
	}
	var names []string
	for h := 985; h <= main; h++ {
		names = append(names, verifkit.ChainName("a", h))
	}
	for _, br := range sc.Tree.Branches {
		for i := 1; i <= br.Len; i++ {
			names = append(names, verifkit.ChainName(br.Tag, br.Fork+i))
		}
	}
	nops := rapid.IntRange(3, 14).Draw(t, "nops")
	for i := 0; i < nops; i++ {
		switch rapid.SampledFrom([]string{"run", "run", "run", "mixed", "block", "blockstep", "blockstep", "empty"}).Draw(t, "kind") {
		case "run":
			prefix, lo, hi := "a", sc.Bulk-3, main
			if rapid.Bool().Draw(t, "usebranch") {
				br := sc.Tree.Branches[rapid.IntRange(0, len(sc.Tree.Branches)-1).Draw(t, "br")]
				prefix, lo, hi = br.Tag, br.Fork+1, br.Fork+br.Len
			}
			from := rapid.IntRange(lo, hi).Draw(t, "from")
			n := rapid.IntRange(1, 14).Draw(t, "n")
			var ns []string
			for h := from; h < from+n && h <= hi; h++ {
				ns = append(ns, verifkit.ChainName(prefix, h))
			}
			sc.Ops = append(sc.Ops, C02Op{Op: "headers", Names: ns})
		case "mixed":
			var ns []string
			for k, n := 0, rapid.IntRange(1, 4).Draw(t, "n"); k < n; k++ {
				ns = append(ns, rapid.SampledFrom(names).Draw(t, "name"))
			}
			sc.Ops = append(sc.Ops, C02Op{Op: "headers", Names: ns})
		case "block":
			sc.Ops = append(sc.Ops, C02Op{Op: "block", Block: rapid.SampledFrom(names).Draw(t, "block")})
		case "blockstep":
			sc.Ops = append(sc.Ops, C02Op{Op: "blockstep"})
		case "empty":
			sc.Ops = append(sc.Ops, C02Op{Op: "headers"})
		}
	}
	return sc
}
