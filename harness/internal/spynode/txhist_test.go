//go:build verif

package spynode

// Transaction histories in step mode: shared runner and reference model for C03, C05 (node
// level), C06 and C11(b).

import (
	"fmt"
	"sort"

	"github.com/tokenized/pkg/bitcoin"
	"github.com/tokenized/pkg/wire"
	"github.com/tokenized/spynode/internal/handlers"
	"github.com/tokenized/spynode/internal/verifkit"
	"github.com/tokenized/spynode/pkg/client"
)

// TxEvent is one step of a transaction history.
type TxEvent struct {
	Op  string `json:"op"`            // inv tx submit txstep mine deliver udeliver blockstep ucheck ping reorg restart
	Src int    `json:"src,omitempty"` // 0 trusted, 1..k untrusted connection
	Txs []int  `json:"txs,omitempty"` // tx numbers (inv list, body, block contents)
}

// TxHistScenario is a complete transaction history case.
type TxHistScenario struct {
	Txs       []TxSpec  `json:"txs"`
	Untrusted int       `json:"untrusted"`
	Events    []TxEvent `json:"events"`
}

// stepUntrusted is a real UntrustedNode driven without sockets.
type stepUntrusted struct {
	un      *UntrustedNode
	pending []wire.Message // messages from this untrusted peer to the node
	sent    []wire.Message // everything the node sent to it
	closed  bool
	has     map[bitcoin.Hash32]*wire.MsgTx
}

func (sn *stepNode) addUntrusted(address string) *stepUntrusted {
	un := NewUntrustedNode(address, sn.cfg, sn.node.state, sn.store, sn.node.peers, sn.node.blocks, sn.node.txs,
		sn.node.memPool, &sn.node.unconfTxChannel, sn.node.handlers, sn.node, false)
	un.messageHandlers = handlers.NewUntrustedMessageHandlers(sn.ctx, un.trustedState, un.untrustedState, un.peers,
		un.blocks, un.txTracker, un.memPool, un.txChannel, un.isRelevant, un.address)
	_ = un.outgoing.Open(100000)
	un.active = true
	un.untrustedState.MarkConnected()
	sn.node.untrustedLock.Lock()
	sn.node.untrustedNodes = append(sn.node.untrustedNodes, un)
	sn.node.untrustedLock.Unlock()
	return &stepUntrusted{un: un, has: map[bitcoin.Hash32]*wire.MsgTx{}}
}

func (u *stepUntrusted) drain(sn *stepNode) {
	for {
		select {
		case m := <-u.un.outgoing.Channel:
			u.sent = append(u.sent, m)
			if gd, ok := m.(*wire.MsgGetData); ok {
				for _, inv := range gd.InvList {
					if inv.Type == wire.InvTypeTx {
						if tx, ok := u.has[inv.Hash]; ok {
							u.pending = append(u.pending, tx)
						}
					}
				}
			}
		default:
			return
		}
	}
}

// deliver mirrors one iteration of UntrustedNode.monitorIncoming.
func (u *stepUntrusted) deliver(sn *stepNode, m wire.Message) {
	if u.closed {
		return
	}
	sn.step++
	if err := u.un.check(sn.ctx); err != nil {
		u.closed = true
		return
	}
	u.drain(sn)
	var err error
	guard("untrusted handleMessage "+m.Command(), func() { err = u.un.handleMessage(sn.ctx, m) })
	if err != nil {
		u.closed = true // monitorIncoming stops the connection on a handler error
	}
	u.drain(sn)
}

// verify performs the untrusted handshake with honest recent headers of the node's chain.
func (u *stepUntrusted) verify(sn *stepNode) {
	me := wire.NewNetAddressIPPort([]byte{127, 0, 0, 1}, 8333, 0)
	u.deliver(sn, wire.NewMsgVersion(me, me, 9, int32(sn.peer.best.Height)))
	u.deliver(sn, wire.NewMsgVerAck())
	// an honest peer on the same chain answers the node's getheaders (locator a few blocks below the
	// node's tip) with the headers the node already has at the top of its chain
	hm := wire.NewMsgHeaders()
	tip := sn.node.blocks.LastHeight()
	from := tip - 4
	if from < 0 {
		from = 0
	}
	for h := from; h <= tip; h++ {
		if hd, err := sn.node.blocks.Header(sn.ctx, h); err == nil {
			_ = hm.AddBlockHeader(hd)
		}
	}
	u.deliver(sn, hm)
}

// txModel is the reference model of one history.
type txModel struct {
	processedUnconf map[int]int // tx -> step of first unconfirmed processing (txStep)
	inBlock         map[int]int // tx -> step its confirming block was processed
	orphaned        map[int]bool
	poolAt          map[int]bool // current pool members (bodies processed, not confirmed/evicted)
	pairs           [][2]int     // (earlier X, later Y): Y processed while X in pool, sharing an outpoint
	lostTo          map[int]int  // unconfirmed delivered tx U -> step at which a block tx conflicting with it was processed
	touched         map[int]bool // tx shares an outpoint with some other tx that was ever seen
	vouched         map[int]bool // trusted inv or trusted body or local submit
	local           map[int]bool
	restartAt       []int
}

func sharesOutpoint(a, b *wire.MsgTx) bool {
	for _, x := range a.TxIn {
		for _, y := range b.TxIn {
			if x.PreviousOutPoint.Hash == y.PreviousOutPoint.Hash && x.PreviousOutPoint.Index == y.PreviousOutPoint.Index {
				return true
			}
		}
	}
	return false
}

// judgeBlockProofs is the C04 oracle applied inside histories: right after the node processed block
// b, every relevant transaction of b must have been notified during that step with a proof the
// independent verifier accepts against the header the node now holds at that height, with the true
// index and depth zero.
func judgeBlockProofs(sn *stepNode, specs []TxSpec, b *verifkit.TBlock, members []int, idOf map[bitcoin.Hash32]int, res *txHistResult) {
	height := sn.node.blocks.LastHeight()
	held, err := sn.node.blocks.Hash(sn.ctx, height)
	if err != nil || *held != b.Hash {
		return
	}
	index := map[bitcoin.Hash32]int{}
	for k, tx := range b.Txs {
		index[*tx.TxHash()] = k
	}
	proven := map[bitcoin.Hash32]bool{}
	for _, e := range sn.h1.snapshot() {
		if e.Step != sn.step || (e.Kind != "tx" && e.Kind != "update") || e.State.MerkleProof == nil {
			continue
		}
		mp := e.State.MerkleProof
		i, known := idOf[e.TxID]
		k, inBlock := index[e.TxID]
		if !inBlock {
			// e.g. the depth update of a tx that is unconfirmed again after a reorg still carries the
			// proof of its orphaned block: outside the statement of C04, which speaks about the
			// transactions of the processed block only
			_ = known
			res.flags["stale-proof-on-other-tx"] = true
			continue
		}
		if *mp.BlockHeader.BlockHash() != b.Hash {
			res.add("C04/proof-wrong-header", fmt.Sprintf("tx%d confirmed in block %s at height %d (step %d): the proof's header is not the header the node holds at that height", i, b.Name, height, sn.step))
			continue
		}
		root, ok := verifkit.VerifyBranch(e.TxID, mp.Index, mp.Path, mp.DuplicatedIndexes)
		if !ok || root != b.Header.MerkleRoot {
			res.add("C04/proof-invalid", fmt.Sprintf("tx%d confirmed in block %s (step %d): the independent verifier rejects the proof (index %d, path %d, duplicates %v)", i, b.Name, sn.step, mp.Index, len(mp.Path), mp.DuplicatedIndexes))
			continue
		}
		if int(mp.Index) != k {
			res.add("C04/proof-wrong-index", fmt.Sprintf("tx%d is at index %d of block %s but its proof says %d", i, k, b.Name, mp.Index))
			continue
		}
		if e.State.UnconfirmedDepth != 0 {
			res.add("C04/confirmed-depth-nonzero", fmt.Sprintf("tx%d confirmed in block %s notified with unconfirmed depth %d", i, b.Name, e.State.UnconfirmedDepth))
			continue
		}
		proven[e.TxID] = true
	}
	for _, i := range members {
		if !specRelevant(specs[i]) {
			continue
		}
		res.flags["relevant-tx-confirmed"] = true
		h := *b.Txs[0].TxHash()
		for _, tx := range b.Txs {
			if j, ok := idOf[*tx.TxHash()]; ok && j == i {
				h = *tx.TxHash()
			}
		}
		if !proven[h] {
			res.add("C04/confirmed-without-proof", fmt.Sprintf("relevant tx%d is in block %s which the node processed at step %d, but that step produced no notification for it with a valid merkle proof", i, b.Name, sn.step))
		}
	}
}

type txHistResult struct {
	violations []*nodeViolation
	flags      map[string]bool
}

func (r *txHistResult) add(key, what string) {
	for _, v := range r.violations {
		if v.key == key {
			return
		}
	}
	r.violations = append(r.violations, &nodeViolation{key, what})
}

// txHistRun executes a history and judges it with the oracles of C03, C05, C06 and C11(b).
func txHistRun(sc *TxHistScenario) (res *txHistResult) {
	res = &txHistResult{flags: map[string]bool{}}
	flags := res.flags
	fetch := newStubFetcher()
	txs := txUniverse(sc.Txs, fetch)
	idOf := map[bitcoin.Hash32]int{}
	for i, tx := range txs {
		idOf[*tx.TxHash()] = i
	}
	tree := verifkit.NewTree(genesisHeader())
	a1 := tree.Add(tree.Genesis, "a1", nil)
	sn, hv := syncedNode(tree, a1, a1, fetch, subUniverse, false)
	if hv != nil {
		res.add("TX/"+hv.key, hv.what)
		return res
	}
	defer func() {
		if r := recover(); r != nil {
			res.add("TX/panic", fmt.Sprintf("panic at step %d: %v\n%s", sn.step, r, shortStack()))
		}
	}()
	var uns []*stepUntrusted
	for k := 0; k < sc.Untrusted; k++ {
		u := sn.addUntrusted(fmt.Sprintf("10.0.0.%d:8333", k+1))
		u.verify(sn)
		uns = append(uns, u)
	}
	m := &txModel{processedUnconf: map[int]int{}, inBlock: map[int]int{}, orphaned: map[int]bool{}, poolAt: map[int]bool{},
		lostTo: map[int]int{}, touched: map[int]bool{}, vouched: map[int]bool{}, local: map[int]bool{}}
	tipName := 1
	tip := a1
	confirmedIn := map[int]*verifkit.TBlock{}
	minedBlocks := map[*verifkit.TBlock][]int{}
	seenAny := map[int]bool{}

	noteSeen := func(i int) {
		if seenAny[i] {
			return
		}
		for j := range seenAny {
			if j != i && sharesOutpoint(txs[i], txs[j]) {
				m.touched[i], m.touched[j] = true, true
			}
		}
		seenAny[i] = true
	}

	doTxStep := func() bool {
		// peek which tx is about to be processed
		select {
		case td := <-sn.node.unconfTxChannel.Channel:
			sn.step++
			i, known := idOf[*td.Msg.TxHash()]
			wasIn := known && sn.node.memPool.TransactionExists(td.Msg.TxHash())
			var err error
			guard("processUnconfirmedTx", func() { err = sn.node.processUnconfirmedTx(sn.ctx, td) })
			if err != nil {
				sn.txThreadDead = err.Error()
			}
			sn.drain()
			_, confirmedAlready := m.inBlock[i]
			if known && confirmedAlready && !m.orphaned[i] {
				// a body that arrives after its confirmation is not an unconfirmed sighting
				flags["body-after-confirmation"] = true
				noteSeen(i)
			} else if known && !wasIn {
				if _, dup := m.processedUnconf[i]; !dup {
					m.processedUnconf[i] = sn.step
				}
				noteSeen(i)
				for x := range m.poolAt {
					if _, conf := m.inBlock[x]; conf && !m.orphaned[x] {
						// x was confirmed by a block processed while the node was not in sync (the code
						// keeps such txs in its pool): it is not an unconfirmed transaction any more, so
						// C05 asks nothing about it
						continue
					}
					if x != i && sharesOutpoint(txs[x], txs[i]) {
						m.pairs = append(m.pairs, [2]int{x, i})
						flags["conflict-pair"] = true
					}
				}
				m.poolAt[i] = true
				if td.Trusted {
					m.vouched[i] = true
				}
			} else if known {
				flags["duplicate-body"] = true
			}
			return true
		default:
			return false
		}
	}

	doBlockStep := func() bool {
		if sn.blockThreadDead != "" {
			return false
		}
		before := sn.node.blocks.LastHeight()
		ready := sn.node.state.IsReady()
		if !sn.blockStep() {
			return false
		}
		if sn.node.blocks.LastHeight() == before+1 {
			b := tree.ByHash[*sn.node.blocks.LastHash()]
			judgeBlockProofs(sn, sc.Txs, b, minedBlocks[b], idOf, res)
			for _, i := range minedBlocks[b] {
				noteSeen(i)
				if _, seen := m.inBlock[i]; !seen || m.orphaned[i] {
					m.inBlock[i] = sn.step
				}
				confirmedIn[i] = b
				wasMember := m.poolAt[i]
				if ready {
					delete(m.poolAt, i)
				}
				// every pool member spending an outpoint that this confirmed tx spends has lost
				for x := range m.poolAt {
					if x != i && sharesOutpoint(txs[x], txs[i]) {
						if _, d := m.processedUnconf[x]; d {
							m.lostTo[x] = sn.step
							flags["confirmed-double-spend"] = true
							if wasMember {
								flags["confirming-tx-seen-before"] = true
							}
							if sn.node.memPool.TransactionExists(txs[x].TxHash()) {
								res.add("C06/loser-still-tracked", fmt.Sprintf("tx%d lost to a confirmed double spend (block step %d) but is still in the mempool right after the block was processed", x, sn.step))
							}
						}
						delete(m.poolAt, x)
					}
				}
			}
		}
		return true
	}

	for _, ev := range sc.Events {
		switch ev.Op {
		case "reconnect":
			// the trusted connection drops and is re-established (same process: pool and tracking persist)
			for doTxStep() { // the tx thread drains its channel during the phased shutdown
			}
			sn.reconnect()
			flags["reconnect"] = true
		case "inv", "invsilent":
			inv := wire.NewMsgInv()
			for _, i := range ev.Txs {
				h := *txs[i%len(txs)].TxHash()
				_ = inv.AddInvVect(wire.NewInvVect(wire.InvTypeTx, &h))
				if ev.Op == "invsilent" {
					// announced, but this peer will never deliver the body
					flags["announced-never-delivered"] = true
					if ev.Src == 0 && sn.node.state.IsReady() {
						m.vouched[i%len(txs)] = true
					}
					continue
				}
				if ev.Src == 0 {
					sn.peer.mempool[h] = txs[i%len(txs)]
					if sn.node.state.IsReady() {
						m.vouched[i%len(txs)] = true
					}
				} else if ev.Src <= len(uns) {
					uns[ev.Src-1].has[h] = txs[i%len(txs)]
				}
			}
			if ev.Src == 0 {
				sn.deliver(inv)
				flags["trusted-inv"] = true
			} else if ev.Src <= len(uns) {
				uns[ev.Src-1].deliver(sn, inv)
				flags["untrusted-inv"] = true
			}
		case "tx":
			for _, i := range ev.Txs {
				tx := txs[i%len(txs)]
				if ev.Src == 0 {
					sn.deliver(tx)
				} else if ev.Src <= len(uns) {
					uns[ev.Src-1].deliver(sn, tx)
					flags["untrusted-body"] = true
				}
			}
		case "submit":
			for _, i := range ev.Txs {
				_ = sn.node.HandleTx(sn.ctx, txs[i%len(txs)])
				m.local[i%len(txs)] = true
				m.vouched[i%len(txs)] = true
				flags["local-submit"] = true
			}
		case "txstep":
			doTxStep()
		case "deliver":
			sn.deliverNext(0)
		case "udeliver":
			if ev.Src >= 1 && ev.Src <= len(uns) && len(uns[ev.Src-1].pending) > 0 {
				u := uns[ev.Src-1]
				msg := u.pending[0]
				u.pending = u.pending[1:]
				u.deliver(sn, msg)
			}
		case "ucheck":
			if ev.Src >= 1 && ev.Src <= len(uns) && !uns[ev.Src-1].closed {
				_ = uns[ev.Src-1].un.check(sn.ctx)
				uns[ev.Src-1].drain(sn)
			}
		case "ping":
			sn.ping()
		case "blockstep":
			doBlockStep()
		case "mine":
			var list []int
			var body []*wire.MsgTx
			inThis := map[int]bool{}
			for _, i := range ev.Txs {
				i = i % len(txs)
				if _, done := confirmedIn[i]; done || inThis[i] {
					continue
				}
				// a block cannot contain two spends of one outpoint, nor a spend conflicting with a confirmed tx
				ok := true
				for j := range inThis {
					if sharesOutpoint(txs[i], txs[j]) {
						ok = false
					}
				}
				for j := range confirmedIn {
					if sharesOutpoint(txs[i], txs[j]) {
						ok = false
					}
				}
				if !ok {
					continue
				}
				inThis[i] = true
				list = append(list, i)
				body = append(body, txs[i])
			}
			tipName++
			nb := tree.Add(tip, verifkit.ChainName("a", tipName), body)
			minedBlocks[nb] = list
			for _, i := range list {
				confirmedIn[i] = nb // reserved: cannot be mined again
			}
			tip = nb
			sn.peer.setBest(nb)
			flags["block"] = true
		case "restart":
			// quiescent point: finish what is pending, then stop cleanly and start a new process
			for sn.deliverNext(0) {
			}
			for doTxStep() {
			}
			for doBlockStep() {
			}
			pre := sn.node.txs.VerifUnconfirmed()
			if err := sn.cleanRestart(); err != nil {
				res.add("C11/restart/load-failed", err.Error())
				return res
			}
			post := sn.node.txs.VerifUnconfirmed()
			for h, a := range pre {
				b, ok := post[h]
				switch {
				case !ok:
					res.add("C11/tracking-lost", fmt.Sprintf("tx%d was tracked as unconfirmed before the clean restart and is not afterwards", idOf[h]))
				case a.Unsafe != b.Unsafe || a.Safe != b.Safe || a.Trusted != b.Trusted:
					res.add("C11/flags-changed", fmt.Sprintf("tx%d unsafe/safe/trusted %v/%v/%v became %v/%v/%v across a clean restart", idOf[h], a.Unsafe, a.Safe, a.Trusted, b.Unsafe, b.Safe, b.Trusted))
				case a.Time.UnixNano()/1000000 != b.Time.UnixNano()/1000000:
					res.add("C11/first-seen-changed", fmt.Sprintf("tx%d first-seen time changed across a clean restart (%v -> %v)", idOf[h], a.Time, b.Time))
				}
				if len(pre) > 0 {
					flags["tracked-across-restart"] = true
				}
			}
			if len(post) > len(pre) {
				res.add("C11/tracking-invented", "the unconfirmed set has more entries after a clean restart than before")
			}
			uns = nil // untrusted connections do not survive a process restart
			m.restartAt = append(m.restartAt, sn.step)
			m.poolAt = map[int]bool{} // the pool is process-local
			flags["restart"] = true
			insync := func() bool { return sn.node.state.IsReady() && sn.peer.sendHeaders }
			if ok, _ := sn.fairCompletion(func() bool { c, _ := sn.converged(); return c && insync() }, 60); !ok {
				res.add("C11/restart/no-resync", "node did not get back in sync after a clean restart")
				return res
			}
		}
		if sn.blockThreadDead != "" {
			res.add("TX/block-thread-exit", "block processing failed and its thread would exit: "+sn.blockThreadDead)
			break
		}
		if sn.txThreadDead != "" {
			res.add("TX/tx-thread-exit", "unconfirmed tx processing failed and the node would stop: "+sn.txThreadDead)
			break
		}
	}
	// drain everything
	for round := 0; round < 30; round++ {
		moved := false
		for sn.deliverNext(0) {
			moved = true
		}
		for _, u := range uns {
			for len(u.pending) > 0 && !u.closed {
				msg := u.pending[0]
				u.pending = u.pending[1:]
				u.deliver(sn, msg)
				moved = true
			}
		}
		for doTxStep() {
			moved = true
		}
		for doBlockStep() {
			moved = true
		}
		if !moved {
			break
		}
	}
	if sn.blockThreadDead != "" {
		res.add("TX/block-thread-exit", "block processing failed and its thread would exit: "+sn.blockThreadDead)
	}
	if sn.txThreadDead != "" {
		res.add("TX/tx-thread-exit", "unconfirmed tx processing failed and the node would stop: "+sn.txThreadDead)
	}
	if traceOn {
		for _, e := range sn.h1.snapshot() {
			if e.Kind == "tx" || e.Kind == "update" {
				fmt.Printf("[note step %d] %s tx%d safe=%v unsafe=%v cancelled=%v proof=%v\n", e.Step, e.Kind, idOf[e.TxID], e.State.Safe, e.State.UnSafe, e.State.Cancelled, e.State.MerkleProof != nil)
			}
		}
		fmt.Printf("[model] processed=%v inBlock=%v pairs=%v lostTo=%v\n", m.processedUnconf, m.inBlock, m.pairs, m.lostTo)
	}
	judgeTxHistory(sn, sc, txs, idOf, m, fetch, res)
	return res
}

func judgeTxHistory(sn *stepNode, sc *TxHistScenario, txs []*wire.MsgTx, idOf map[bitcoin.Hash32]int, m *txModel, fetch *stubFetcher, res *txHistResult) {
	e1, e2 := sn.h1.snapshot(), sn.h2.snapshot()
	// (d) both handlers observe the same sequence
	var k1, k2 []string
	for _, e := range e1 {
		if e.Kind == "tx" || e.Kind == "update" {
			k1 = append(k1, fmt.Sprintf("%s:%s:%v%v%v", e.Kind, e.TxID.String()[:8], e.State.Safe, e.State.UnSafe, e.State.Cancelled))
		}
	}
	for _, e := range e2 {
		if e.Kind == "tx" || e.Kind == "update" {
			k2 = append(k2, fmt.Sprintf("%s:%s:%v%v%v", e.Kind, e.TxID.String()[:8], e.State.Safe, e.State.UnSafe, e.State.Cancelled))
		}
	}
	if fmt.Sprint(k1) != fmt.Sprint(k2) {
		res.add("C03/handlers-differ", "the two registered handlers saw different notification sequences")
	}
	type note struct {
		kind string
		ev   recEvent
	}
	notes := map[int][]note{}
	for _, e := range e1 {
		if e.Kind != "tx" && e.Kind != "update" {
			continue
		}
		i, ok := idOf[e.TxID]
		if !ok {
			res.add("C03/unknown-tx-notified", "a notification names a txid that was never given to the node")
			continue
		}
		notes[i] = append(notes[i], note{e.Kind, e})
	}
	for i, sp := range sc.Txs {
		ns := notes[i]
		rel := specRelevant(sp)
		newCount := 0
		for _, n := range ns {
			if n.kind == "tx" {
				newCount++
			}
		}
		_, procd := m.processedUnconf[i]
		_, blockd := m.inBlock[i]
		// (b) non-matching transactions are never delivered
		if !rel && len(ns) > 0 {
			res.add("C03/irrelevant-notified", fmt.Sprintf("tx%d does not match the subscriptions but produced %d notifications (first: %s)", i, len(ns), ns[0].kind))
			continue
		}
		if !rel {
			continue
		}
		// (a) must deliver
		if (procd || blockd) && newCount == 0 {
			res.add("C03/not-delivered", fmt.Sprintf("relevant tx%d was processed (unconfirmed %v, in block %v) but never delivered as a new transaction", i, procd, blockd))
		}
		// a relevant tx in a processed block must have been notified with a merkle proof (C04 statement)
		if blockd && !m.orphaned[i] {
			withProof := false
			for _, n := range ns {
				if n.ev.State.MerkleProof != nil {
					withProof = true
				}
			}
			if !withProof {
				res.add("C03/confirmed-without-proof", fmt.Sprintf("relevant tx%d is in a processed block (step %d) but no notification for it carries a merkle proof", i, m.inBlock[i]))
			}
		}
		// (c) at most once, except after an orphaning reorg
		allowed := 1
		if m.orphaned[i] {
			allowed = 2
		}
		if newCount > allowed {
			res.add("C03/delivered-twice", fmt.Sprintf("relevant tx%d was delivered as new %d times (restarts at steps %v)", i, newCount, m.restartAt))
		}
		if len(m.restartAt) > 0 && newCount > 1 && !m.orphaned[i] {
			res.add("C11/redelivered-after-restart", fmt.Sprintf("tx%d was delivered as new again after a clean restart", i))
		}
		// spent outputs per input
		for _, n := range ns {
			if n.kind != "tx" || n.ev.Tx == nil {
				continue
			}
			tx := n.ev.Tx
			if len(tx.Outputs) != len(tx.Tx.TxIn) {
				res.add("C03/spent-outputs-count", fmt.Sprintf("tx%d delivered with %d spent outputs for %d inputs", i, len(tx.Outputs), len(tx.Tx.TxIn)))
				continue
			}
			for k, in := range tx.Tx.TxIn {
				want := fetch.outputs[in.PreviousOutPoint]
				got := tx.Outputs[k]
				if want == nil || got == nil || got.Value != want.Value || string(got.LockingScript) != string(want.LockingScript) {
					res.add("C03/spent-output-wrong", fmt.Sprintf("tx%d input %d: delivered spent output does not equal the output it spends", i, k))
				}
			}
			// stored copy equals what was sent (C11 last clause)
			stored, err := sn.node.GetTx(sn.ctx, *tx.Tx.TxHash())
			if err != nil || *stored.TxHash() != *tx.Tx.TxHash() {
				res.add("C11/stored-copy", fmt.Sprintf("GetTx(tx%d) does not return the transaction that was sent to handlers (err=%v)", i, err))
			}
		}
		// confirmation after an unconfirmed delivery must be an update with proof
		if procd && blockd && !m.orphaned[i] && m.processedUnconf[i] < m.inBlock[i] {
			hasProofUpdate := false
			for _, n := range ns {
				if n.kind == "update" && n.ev.State.MerkleProof != nil {
					hasProofUpdate = true
					mp := n.ev.State.MerkleProof
					root, ok := verifkit.VerifyBranch(n.ev.TxID, mp.Index, mp.Path, mp.DuplicatedIndexes)
					if !ok || root != mp.BlockHeader.MerkleRoot {
						res.add("C11/confirmation-proof-invalid", fmt.Sprintf("confirmation update of tx%d carries a proof the independent verifier rejects", i))
					}
				}
			}
			if !hasProofUpdate && newCount <= 1 && len(m.restartAt) > 0 {
				res.add("C11/confirmation-not-update", fmt.Sprintf("tx%d was delivered unconfirmed, the node restarted cleanly, and its later confirmation produced no state update with a merkle proof", i))
			}
			if !hasProofUpdate && newCount <= 1 {
				res.add("C03/confirmation-not-update", fmt.Sprintf("tx%d was delivered unconfirmed and later confirmed, but no state update with a merkle proof followed", i))
			}
		}
		// state flag sanity on every notification (C07 invariants that also apply here)
		sawUnsafe := false
		for _, n := range ns {
			s := n.ev.State
			if s.Safe && s.UnSafe {
				res.add("C07/safe-and-unsafe", fmt.Sprintf("tx%d notified with safe and unsafe both set", i))
			}
			if s.Cancelled && !s.UnSafe {
				res.add("C07/cancelled-not-unsafe", fmt.Sprintf("tx%d notified cancelled without unsafe", i))
			}
			if sawUnsafe && s.Safe {
				res.add("C05/safe-after-unsafe", fmt.Sprintf("tx%d was reported unsafe/cancelled and later safe", i))
			}
			if s.UnSafe || s.Cancelled {
				sawUnsafe = true
			}
		}
		// C05 negative: no outpoint shared with anything ever seen => never unsafe
		if !m.touched[i] && sawUnsafe {
			res.add("C05/false-unsafe", fmt.Sprintf("tx%d shares no outpoint with any transaction the node ever saw but was reported unsafe", i))
		}
	}
	// C05 positive: conflicting unconfirmed pairs
	for _, p := range m.pairs {
		x, y := p[0], p[1]
		for _, z := range []int{x, y} {
			if !specRelevant(sc.Txs[z]) {
				continue
			}
			after := m.processedUnconf[y]
			flagged := false
			for _, n := range notes[z] {
				if n.ev.Step >= after && n.ev.State.UnSafe {
					flagged = true
				}
			}
			if !flagged {
				res.add("C05/conflict-not-flagged", fmt.Sprintf("tx%d and tx%d spend a common outpoint and were both seen unconfirmed (tx%d second, step %d), but relevant tx%d was never reported unsafe afterwards", x, y, y, after, z))
			}
		}
	}
	// C06: confirmed double spend cancels the losing delivered unconfirmed tx
	var losers []int
	for u := range m.lostTo {
		losers = append(losers, u)
	}
	sort.Ints(losers)
	for _, u := range losers {
		if !specRelevant(sc.Txs[u]) {
			continue
		}
		if len(notes[u]) == 0 {
			continue // never delivered (C03 reports that)
		}
		cancelled := false
		for _, n := range notes[u] {
			if n.kind == "update" && n.ev.State.Cancelled && n.ev.State.UnSafe {
				cancelled = true
			}
		}
		if !cancelled {
			res.add("C06/loser-not-cancelled", fmt.Sprintf("delivered unconfirmed tx%d lost an outpoint to a transaction confirmed in a processed block (step %d) but no cancelled+unsafe update for it was sent", u, m.lostTo[u]))
		}
	}
	_ = client.TxState{}
}
