//go:build verif

package spynode

// C19 — Stop always terminates the node, persists its state and silences handlers; a lost trusted
// connection is followed by reconnection and resumption. Live mode: real Run, real sockets.

import (
	"context"
	"fmt"
	"net"
	"sync"
	"sync/atomic"
	"testing"
	"time"

	"github.com/tokenized/pkg/bitcoin"
	"github.com/tokenized/pkg/wire"
	"github.com/tokenized/spynode/internal/verifkit"
	"github.com/tokenized/spynode/pkg/client"

	"pgregory.net/rapid"
)

// C19Plan is one live scenario.
type C19Plan struct {
	Blocks    int    `json:"blocks"` // chain length served by the peer
	Start     int    `json:"start"`  // start block height
	TxsPerBlk int    `json:"txs_per_block"`
	Trigger   string `json:"trigger"` // connecting handshake headers blocks callback insync mined
	K         int    `json:"k"`       // trigger count (k-th getheaders / block / callback)
	Action    string `json:"action"`  // stop close reset close-stop (stop StopDelayMs after closing)
	StopDelay int    `json:"stop_delay_ms,omitempty"`
	TxTraffic bool   `json:"tx_traffic"` // peer streams inv/tx once in sync
	// slow storage / output fetcher: the SlowK-th operation of kind SlowOp (write read fetch) after
	// the trigger takes SlowMs longer, so that it is in flight while the node shuts down or reconnects
	SlowOp    string `json:"slow_op,omitempty"`
	SlowK     int    `json:"slow_k,omitempty"`
	SlowMs    int    `json:"slow_ms,omitempty"`
	SlowEarly bool   `json:"slow_early,omitempty"` // count the slow operation from the in-sync notification instead of the trigger
	// ApiFlood: once in sync, four application goroutines hand this many transactions to the node
	// (Node.HandleTx) while every handler callback takes 15 ms, so that the unconfirmed-tx queue (100)
	// is full and several producers are blocked on it when the stop request arrives
	ApiFlood int `json:"api_flood,omitempty"`
}

type livePeer struct {
	mu          sync.Mutex
	fp          *fakePeer
	ln          net.Listener
	conns       []net.Conn
	versions    []*wire.MsgVersion
	firstLoc    [][]bitcoin.Hash32 // per connection: locator of the first getheaders
	getHdrs     int
	blocksOut   int
	onEvent     func(kind string, n int)
	silent      bool
	muteVersion bool
	closed      bool
	txStream    []*wire.MsgTx
	streamOn    bool
	// announcements without delivery (C14 live): one entry is sent as an inv per ping tick once the
	// node is in sync on the connection; getdata(tx) requests are recorded with their arrival time
	invQueue      [][]bitcoin.Hash32
	txReqs        []liveTxReq
	wlocks        map[net.Conn]*sync.Mutex // one writer at a time per connection
	writeTimeouts int
}

type liveTxReq struct {
	hash bitcoin.Hash32
	conn int
	at   time.Time
}

func newLivePeer(fp *fakePeer) (*livePeer, error) {
	ln, err := net.Listen("tcp", "127.0.0.1:0")
	if err != nil {
		return nil, err
	}
	lp := &livePeer{fp: fp, ln: ln}
	go lp.acceptLoop()
	return lp, nil
}

func (lp *livePeer) acceptLoop() {
	for {
		c, err := lp.ln.Accept()
		if err != nil {
			return
		}
		lp.mu.Lock()
		lp.conns = append(lp.conns, c)
		lp.firstLoc = append(lp.firstLoc, nil)
		lp.fp.newConnection()
		idx := len(lp.conns) - 1
		lp.mu.Unlock()
		go lp.serve(c, idx)
	}
}

// write sends the messages on c; the per-peer write lock keeps the two parts of a message (header,
// payload) of one goroutine from interleaving with another goroutine's.
func (lp *livePeer) write(c net.Conn, msgs []peerMsg) bool {
	lp.mu.Lock()
	if lp.wlocks == nil {
		lp.wlocks = map[net.Conn]*sync.Mutex{}
	}
	wl := lp.wlocks[c]
	if wl == nil {
		wl = &sync.Mutex{}
		lp.wlocks[c] = wl
	}
	lp.mu.Unlock()
	wl.Lock()
	defer wl.Unlock()
	return lp.writeLocked(c, msgs)
}

func (lp *livePeer) writeLocked(c net.Conn, msgs []peerMsg) bool {
	for _, pm := range msgs {
		_ = c.SetWriteDeadline(time.Now().Add(3 * time.Second))
		if _, err := wire.WriteMessageN(c, pm.msg, wire.ProtocolVersion, wire.BitcoinNet(bitcoin.MainNet)); err != nil {
			if ne, ok := err.(net.Error); ok && ne.Timeout() {
				lp.mu.Lock()
				lp.writeTimeouts++ // the peer could not hand a message over within 3 s: the machine is too busy for a verdict about the node
				lp.mu.Unlock()
			}
			return false
		}
		if pm.tag == "block" {
			lp.mu.Lock()
			lp.blocksOut++
			n := lp.blocksOut
			cb := lp.onEvent
			lp.mu.Unlock()
			if cb != nil {
				cb("block", n)
			}
		}
	}
	return true
}

func (lp *livePeer) serve(c net.Conn, idx int) {
	stopPing := make(chan struct{})
	defer close(stopPing)
	go func() {
		for i := uint64(1); ; i++ {
			select {
			case <-stopPing:
				return
			case <-time.After(40 * time.Millisecond):
			}
			lp.mu.Lock()
			silent := lp.silent
			var extra []peerMsg
			if lp.streamOn && len(lp.txStream) > 0 && lp.fp.sendHeaders {
				tx := lp.txStream[0]
				lp.txStream = lp.txStream[1:]
				h := *tx.TxHash()
				lp.fp.mempool[h] = tx
				inv := wire.NewMsgInv()
				_ = inv.AddInvVect(wire.NewInvVect(wire.InvTypeTx, &h))
				extra = append(extra, peerMsg{msg: inv, tag: "inv"})
			}
			announced := false
			if len(lp.invQueue) > 0 && lp.fp.sendHeaders && idx == len(lp.conns)-1 && !silent {
				inv := wire.NewMsgInv()
				for k := range lp.invQueue[0] {
					_ = inv.AddInvVect(wire.NewInvVect(wire.InvTypeTx, &lp.invQueue[0][k]))
				}
				extra = append(extra, peerMsg{msg: inv, tag: "inv"})
				announced = true
			}
			lp.mu.Unlock()
			if silent {
				continue
			}
			if lp.write(c, append(extra, peerMsg{msg: wire.NewMsgPing(i), tag: "ping"})) && announced {
				// taken off the queue only once it was written: a connection that died meanwhile has
				// announced nothing
				lp.mu.Lock()
				if len(lp.invQueue) > 0 {
					lp.invQueue = lp.invQueue[1:]
				}
				lp.mu.Unlock()
			}
		}
	}()
	for {
		_, msg, _, err := wire.ReadMessageN(c, wire.ProtocolVersion, wire.BitcoinNet(bitcoin.MainNet))
		if err != nil {
			if me, ok := err.(*wire.MessageError); ok && me.Type == wire.MessageErrorUnknownCommand {
				continue
			}
			return
		}
		lp.mu.Lock()
		if lp.silent {
			lp.mu.Unlock()
			continue
		}
		var ev string
		var evn int
		switch m := msg.(type) {
		case *wire.MsgVersion:
			lp.versions = append(lp.versions, m)
			ev, evn = "version", len(lp.versions)
		case *wire.MsgGetHeaders:
			if lp.firstLoc[idx] == nil {
				for _, h := range m.BlockLocatorHashes {
					lp.firstLoc[idx] = append(lp.firstLoc[idx], *h)
				}
			}
			lp.getHdrs++
			ev, evn = "getheaders", lp.getHdrs
		case *wire.MsgGetData:
			for _, iv := range m.InvList {
				if iv.Type == wire.InvTypeTx {
					lp.txReqs = append(lp.txReqs, liveTxReq{iv.Hash, idx, time.Now()})
				}
			}
		}
		mute := lp.muteVersion
		lp.fp.handle(msg)
		out := lp.fp.toNode
		lp.fp.toNode = nil
		cb := lp.onEvent
		lp.mu.Unlock()
		if ev != "" && cb != nil {
			cb(ev, evn)
		}
		if _, isVersion := msg.(*wire.MsgVersion); isVersion && mute {
			continue // mid-handshake: never answer the version
		}
		lp.write(c, out)
	}
}

// announce makes b the peer's best block and sends what a Bitcoin node sends for it on the newest
// connection.
func (lp *livePeer) announce(b *verifkit.TBlock) {
	lp.mu.Lock()
	lp.fp.setBest(b)
	out := lp.fp.toNode
	lp.fp.toNode = nil
	var c net.Conn
	if len(lp.conns) > 0 {
		c = lp.conns[len(lp.conns)-1]
	}
	lp.mu.Unlock()
	if c != nil {
		lp.write(c, out)
	}
}

type safeFlags struct {
	mu sync.Mutex
	m  map[string]bool
}

func (f *safeFlags) set(k string) {
	f.mu.Lock()
	f.m[k] = true
	f.mu.Unlock()
}

func (f *safeFlags) snapshot() map[string]bool {
	f.mu.Lock()
	defer f.mu.Unlock()
	out := map[string]bool{}
	for k := range f.m {
		out[k] = true
	}
	return out
}

func (lp *livePeer) closeAll(reset bool) {
	lp.mu.Lock()
	conns := append([]net.Conn{}, lp.conns...)
	lp.mu.Unlock()
	for _, c := range conns {
		if reset {
			if tc, ok := c.(*net.TCPConn); ok {
				_ = tc.SetLinger(0)
			}
		}
		_ = c.Close()
	}
}

func (lp *livePeer) shutdown() {
	_ = lp.ln.Close()
	lp.closeAll(false)
}

// liveHandler records callbacks with wall-clock start times and can fire a hook on the k-th one.
type liveHandler struct {
	mu       sync.Mutex
	events   []recEvent
	hook     func(n int)
	delay    time.Duration
	onInsync func() // called at every in-sync notification
}

func (h *liveHandler) add(ev recEvent) {
	ev.At = time.Now()
	h.mu.Lock()
	h.events = append(h.events, ev)
	n := len(h.events)
	hook, delay := h.hook, h.delay
	onInsync := h.onInsync
	h.mu.Unlock()
	if ev.Kind == "insync" && onInsync != nil {
		onInsync()
	}
	if hook != nil {
		hook(n)
	}
	if delay > 0 {
		time.Sleep(delay)
	}
}
func (h *liveHandler) HandleTx(ctx context.Context, tx *client.Tx) {
	h.add(recEvent{Kind: "tx", TxID: *tx.Tx.TxHash(), State: tx.State})
}
func (h *liveHandler) HandleTxUpdate(ctx context.Context, u *client.TxUpdate) {
	h.add(recEvent{Kind: "update", TxID: u.TxID, State: u.State})
}
func (h *liveHandler) HandleHeaders(ctx context.Context, hs *client.Headers) {
	for i, hd := range hs.Headers {
		h.add(recEvent{Kind: "headers", Height: int(hs.StartHeight) + i, Header: *hd})
	}
}
func (h *liveHandler) HandleInSync(ctx context.Context) { h.add(recEvent{Kind: "insync"}) }
func (h *liveHandler) HandleMessage(ctx context.Context, p client.MessagePayload) {
	h.add(recEvent{Kind: "message"})
}
func (h *liveHandler) snapshot() []recEvent {
	h.mu.Lock()
	defer h.mu.Unlock()
	return append([]recEvent{}, h.events...)
}

func c19Run(plan *C19Plan) (*nodeViolation, map[string]bool) {
	if plan.Trigger == "mined" && (plan.Action == "close" || plan.Action == "reset") {
		plan.Action = "stop" // the resume expectations below are written for a fixed peer chain
	}
	flags := map[string]bool{"trigger:" + plan.Trigger: true, "action:" + plan.Action: true}
	flags2 := &safeFlags{m: map[string]bool{}}
	defer func() {
		for k := range flags2.snapshot() {
			flags[k] = true
		}
	}()
	fetch := newStubFetcher()
	tree := verifkit.NewTree(genesisHeader())
	var specs []TxSpec
	for b := 0; b < plan.Blocks; b++ {
		for k := 0; k < plan.TxsPerBlk; k++ {
			specs = append(specs, TxSpec{Ins: []TxInSpec{{Fund: 100 + len(specs)}}, Rel: len(specs)%3 - 1})
		}
	}
	var streamSpecs []TxSpec
	for k := 0; k < 12; k++ {
		streamSpecs = append(streamSpecs, TxSpec{Ins: []TxInSpec{{Fund: 900 + k}}, Rel: k % 2})
	}
	var floodSpecs []TxSpec
	for k := 0; k < plan.ApiFlood; k++ {
		floodSpecs = append(floodSpecs, TxSpec{Ins: []TxInSpec{{Fund: 2000 + k}}, Rel: k % 2})
	}
	all := txUniverse(append(append(specs, streamSpecs...), floodSpecs...), fetch)
	blockTxs, streamTxs, floodTxs := all[:len(specs)], all[len(specs):len(specs)+len(streamSpecs)], all[len(specs)+len(streamSpecs):]
	prev := tree.Genesis
	for b := 1; b <= plan.Blocks; b++ {
		var body []*wire.MsgTx
		for k := 0; k < plan.TxsPerBlk; k++ {
			body = append(body, blockTxs[(b-1)*plan.TxsPerBlk+k])
		}
		prev = tree.Add(prev, verifkit.ChainName("a", b), body)
	}
	best := prev
	fp := newFakePeer(tree, best)
	lp, err := newLivePeer(fp)
	if err != nil {
		return &nodeViolation{"C19/harness/listen", err.Error()}, flags
	}
	defer lp.shutdown()
	if plan.TxTraffic {
		lp.txStream = streamTxs
		lp.streamOn = true
		flags["tx-traffic"] = true
	}
	cfg := stepConfig()
	cfg.NodeAddress = lp.ln.Addr().String()
	cfg.RetryDelay = 20
	cfg.SafeTxDelay = 100
	start := plan.Start
	if start < 1 {
		start = 1
	}
	if start > plan.Blocks {
		start = plan.Blocks
	}
	cfg.StartHash = tree.ByName[verifkit.ChainName("a", start)].Hash
	store := verifkit.NewMemStore(true)
	ctx := quietCtx()
	var slowMu sync.Mutex
	var slowHit int32
	defer func() {
		if atomic.LoadInt32(&slowHit) == 1 {
			flags["slow-op-in-flight"] = true
		}
	}()
	slowArmed, slowCount := false, 0
	slowHook := func(_ context.Context, op, key string) {
		if plan.SlowOp == "" || op != plan.SlowOp {
			return
		}
		slowMu.Lock()
		hit := false
		if slowArmed {
			if slowCount == plan.SlowK {
				hit = true
				slowArmed = false
			}
			slowCount++
		}
		slowMu.Unlock()
		if hit {
			atomic.StoreInt32(&slowHit, 1)
			time.Sleep(time.Duration(plan.SlowMs) * time.Millisecond)
		}
	}
	store.SetGate(slowHook)
	node := NewNode(cfg, store, fetch, &gatedFetcher{fetch, slowHook})
	h := &liveHandler{}
	node.RegisterHandler(h)
	_ = node.SubscribePushDatas(ctx, subUniverse)

	if plan.SlowEarly {
		// the slow operation is counted from the in-sync notification on, so that it can already be
		// under way when the trigger fires
		h.onInsync = func() {
			slowMu.Lock()
			slowArmed = true
			slowMu.Unlock()
		}
	}
	fired := make(chan struct{})
	var once sync.Once
	fire := func() {
		once.Do(func() {
			slowMu.Lock()
			slowArmed = true
			slowMu.Unlock()
			close(fired)
		})
	}
	switch plan.Trigger {
	case "connecting":
		// nobody is listening at first: the node is in its connect/retry loop
		_ = lp.ln.Close()
		time.AfterFunc(time.Duration(30+plan.K*15)*time.Millisecond, fire)
	case "handshake":
		lp.muteVersion = true
		lp.onEvent = func(kind string, n int) {
			if kind == "version" {
				fire()
			}
		}
	case "headers":
		lp.onEvent = func(kind string, n int) {
			if kind == "getheaders" && n >= 1+plan.K%3 {
				fire()
			}
		}
	case "blocks":
		lp.onEvent = func(kind string, n int) {
			if kind == "block" && n >= 1+plan.K%maxInt(plan.Blocks-start+1, 1) {
				fire()
			}
		}
	case "callback":
		h.delay = 15 * time.Millisecond
		h.hook = func(n int) {
			if n >= 2+plan.K {
				fire()
			}
		}
	case "insync":
		h.hook = func(n int) {
			for _, e := range h.snapshotUnlocked() {
				if e.Kind == "insync" {
					time.AfterFunc(time.Duration(20+plan.K*25)*time.Millisecond, fire)
					return
				}
			}
		}
	case "mined":
		// once in sync the peer streams transactions, mines an empty block (a point at which the node
		// writes its unconfirmed set), then a block with everything streamed so far; the trigger is
		// the announcement of that block to the handlers plus a little
		lp.txStream = streamTxs
		lp.streamOn = true
		flags["tx-traffic"] = true
		var minedOnce sync.Once
		target := plan.Blocks + 2
		h.hook = func(n int) {
			evs := h.snapshotUnlocked()
			insync := false
			for _, e := range evs {
				if e.Kind == "insync" {
					insync = true
				}
				if e.Kind == "headers" && e.Height == target {
					time.AfterFunc(time.Duration(plan.K*20)*time.Millisecond, fire)
					return
				}
			}
			if insync {
				minedOnce.Do(func() {
					go func() {
						time.Sleep(time.Duration(150+plan.K*15) * time.Millisecond)
						lp.mu.Lock()
						lp.streamOn = false // nothing new after this: the second block empties the node's unconfirmed set
						sent := len(streamTxs) - len(lp.txStream)
						b1 := tree.Add(best, verifkit.ChainName("a", plan.Blocks+1), nil)
						lp.mu.Unlock()
						lp.announce(b1)
						time.Sleep(120 * time.Millisecond)
						lp.mu.Lock()
						b2 := tree.Add(b1, verifkit.ChainName("a", plan.Blocks+2), streamTxs[:sent])
						lp.mu.Unlock()
						lp.announce(b2)
						if sent > 0 {
							flags2.set("streamed-txs-mined")
						}
					}()
				})
			}
		}
	}
	if plan.ApiFlood > 0 {
		h.delay = 15 * time.Millisecond
		prev := h.onInsync
		var floodOnce sync.Once
		h.onInsync = func() {
			if prev != nil {
				prev()
			}
			floodOnce.Do(func() {
				flags2.set("api-flood")
				for g := 0; g < 4; g++ {
					go func(g int) {
						for k := g; k < len(floodTxs); k += 4 {
							if err := node.HandleTx(ctx, floodTxs[k]); err != nil {
								return // the queue was closed by the shutdown
							}
						}
					}(g)
				}
			})
		}
	}
	runDone := make(chan error, 1)
	go func() { runDone <- node.Run(ctx) }()

	select {
	case <-fired:
	case <-time.After(12 * time.Second):
		// the trigger point was never reached (e.g. fewer callbacks than K): stop anyway
		flags["trigger-not-reached"] = true
	}
	heightAtAction := node.blocks.LastHeight()
	reconnectExpected := false
	switch plan.Action {
	case "close-stop":
		// the connection is lost and Stop arrives while the node is tearing it down / reconnecting
		if plan.Trigger != "connecting" {
			lp.closeAll(false)
			flags["stop-during-reconnect"] = true
			time.Sleep(time.Duration(plan.StopDelay) * time.Millisecond)
		}
	case "close", "reset":
		if plan.Trigger != "connecting" {
			lp.mu.Lock()
			lp.muteVersion = false
			lp.mu.Unlock()
			lp.mu.Lock()
			connsBefore := len(lp.conns)
			lp.mu.Unlock()
			lp.closeAll(plan.Action == "reset")
			reconnectExpected = true
			flags["connection-lost"] = true
			// the node must reconnect and resume to the peer's tip
			deadline := time.Now().Add(15 * time.Second)
			for time.Now().Before(deadline) {
				lp.mu.Lock()
				n := len(lp.conns)
				lp.mu.Unlock()
				if n > connsBefore && node.blocks.LastHeight() == best.Height && node.state.IsReady() {
					break
				}
				time.Sleep(20 * time.Millisecond)
			}
			lp.mu.Lock()
			nconns := len(lp.conns)
			lp.mu.Unlock()
			if nconns <= connsBefore {
				return &nodeViolation{"C19/reconnect/none", fmt.Sprintf("the trusted connection was %s at trigger %s but the node did not connect again within 15 s", plan.Action, plan.Trigger)}, flags
			}
			if node.blocks.LastHeight() != best.Height {
				lp.mu.Lock()
				if lp.writeTimeouts > 0 {
					lp.mu.Unlock()
					flags["harness:peer-write-timed-out"] = true
					return nil, flags // no verdict
				}
				diag := fmt.Sprintf("connections %d (before %d), getheaders seen %d, blocks sent %d, peer sendheaders %v", len(lp.conns), connsBefore, lp.getHdrs, lp.blocksOut, lp.fp.sendHeaders)
				lp.mu.Unlock()
				diag += fmt.Sprintf("; node: ready %v, headers request pending %v, block requests %d, stopping %v", node.state.IsReady(), node.state.HeadersRequested() != nil, node.state.TotalBlockRequestCount(), node.isStopping())
				return &nodeViolation{"C19/reconnect/no-resume", fmt.Sprintf("after the connection was %s (node height %d) the node reconnected but stayed at height %d of %d for 15 s [%s]", plan.Action, heightAtAction, node.blocks.LastHeight(), best.Height, diag)}, flags
			}
		}
	}
	// stop request
	stopReturned := make(chan time.Time, 1)
	go func() {
		_ = node.Stop(ctx)
		stopReturned <- time.Now()
	}()
	var stopAt time.Time
	select {
	case stopAt = <-stopReturned:
	case <-time.After(30 * time.Second):
		return &nodeViolation{"C19/stop/hang", fmt.Sprintf("Stop did not return within 30 s (trigger %s k=%d, action %s, node height %d)", plan.Trigger, plan.K, plan.Action, node.blocks.LastHeight())}, flags
	}
	select {
	case <-runDone:
	case <-time.After(5 * time.Second):
		return &nodeViolation{"C19/stop/run-not-returned", "Stop returned but Run had not returned 5 s later"}, flags
	}
	time.Sleep(500 * time.Millisecond)
	evs := h.snapshot()
	for _, e := range evs {
		if e.At.After(stopAt.Add(2 * time.Millisecond)) {
			return &nodeViolation{"C19/stop/callback-after-stop", fmt.Sprintf("a %s callback started %v after Stop had returned", e.Kind, e.At.Sub(stopAt))}, flags
		}
	}
	// no height announced twice (no reorganisations in these plans)
	seen := map[int]bool{}
	for _, e := range evs {
		if e.Kind == "headers" {
			if seen[e.Height] {
				return &nodeViolation{"C19/reconnect/re-announced", fmt.Sprintf("height %d was announced to handlers twice (connection lost: %v)", e.Height, reconnectExpected)}, flags
			}
			seen[e.Height] = true
		}
	}
	// reconnection handshake carries the stored tip
	if reconnectExpected {
		lp.mu.Lock()
		nv := len(lp.versions)
		var lastV *wire.MsgVersion
		if nv > 0 {
			lastV = lp.versions[nv-1]
		}
		var loc []bitcoin.Hash32
		if len(lp.firstLoc) > 0 {
			loc = lp.firstLoc[len(lp.firstLoc)-1]
		}
		lp.mu.Unlock()
		if nv >= 2 && lastV != nil {
			if int(lastV.LastBlock) < heightAtAction || int(lastV.LastBlock) > best.Height {
				return &nodeViolation{"C19/reconnect/version-height", fmt.Sprintf("the version message of the new connection says height %d, the node was at %d when the connection was lost", lastV.LastBlock, heightAtAction)}, flags
			}
			if len(loc) > 0 {
				b, ok := tree.ByHash[loc[0]]
				if !ok || b.Height < heightAtAction {
					return &nodeViolation{"C19/reconnect/locator", "the first header request after reconnecting does not start at the stored tip"}, flags
				}
			}
		}
	}
	// persisted state reloads
	lastHeight, lastHash := node.blocks.LastHeight(), *node.blocks.LastHash()
	unconf := node.txs.VerifUnconfirmed()
	peersBefore := node.peers.Count()
	fresh := NewNode(cfg, store, fetch, fetch)
	if err := fresh.load(ctx); err != nil {
		return &nodeViolation{"C19/persist/load-failed", "a fresh node does not load what the stopped node saved: " + err.Error()}, flags
	}
	if fresh.blocks.LastHeight() != lastHeight || *fresh.blocks.LastHash() != lastHash {
		return &nodeViolation{"C19/persist/chain", fmt.Sprintf("stopped node reported tip %d, a fresh node on its storage loads tip %d (trigger %s, action %s)", lastHeight, fresh.blocks.LastHeight(), plan.Trigger, plan.Action)}, flags
	}
	for hgt := 0; hgt <= lastHeight; hgt++ {
		a, _ := node.blocks.Hash(ctx, hgt)
		b, err := fresh.blocks.Hash(ctx, hgt)
		if err != nil || a == nil || *a != *b {
			return &nodeViolation{"C19/persist/chain", fmt.Sprintf("height %d differs between the stopped node and a fresh node on its storage", hgt)}, flags
		}
	}
	got := fresh.txs.VerifUnconfirmed()
	if len(got) != len(unconf) {
		return &nodeViolation{"C19/persist/unconfirmed", fmt.Sprintf("stopped node tracked %d unconfirmed txs, storage holds %d", len(unconf), len(got))}, flags
	}
	for k, a := range unconf {
		b, ok := got[k]
		if !ok || a.Safe != b.Safe || a.Unsafe != b.Unsafe || a.Trusted != b.Trusted {
			return &nodeViolation{"C19/persist/unconfirmed", "tracked unconfirmed tx flags differ after reload"}, flags
		}
	}
	if len(unconf) > 0 {
		flags["unconfirmed-persisted"] = true
	}
	if fresh.peers.Count() != peersBefore {
		return &nodeViolation{"C19/persist/peers", fmt.Sprintf("peer count %d before stop, %d after reload", peersBefore, fresh.peers.Count())}, flags
	}
	if lastHeight > 0 && lastHeight < best.Height {
		flags["stopped-mid-sync"] = true
	}
	return nil, flags
}

func (h *liveHandler) snapshotUnlocked() []recEvent {
	h.mu.Lock()
	defer h.mu.Unlock()
	return append([]recEvent{}, h.events...)
}

func maxInt(a, b int) int {
	if a > b {
		return a
	}
	return b
}

func genC19(t *rapid.T) *C19Plan {
	p := &C19Plan{Blocks: rapid.IntRange(3, 24).Draw(t, "blocks"), TxsPerBlk: rapid.IntRange(0, 4).Draw(t, "txs"),
		Trigger:   rapid.SampledFrom([]string{"connecting", "handshake", "headers", "blocks", "blocks", "callback", "callback", "insync", "insync", "mined", "mined"}).Draw(t, "trigger"),
		K:         rapid.IntRange(0, 12).Draw(t, "k"),
		Action:    rapid.SampledFrom([]string{"stop", "stop", "close", "reset", "close-stop"}).Draw(t, "action"),
		StopDelay: rapid.SampledFrom([]int{0, 30, 120, 220, 320, 450}).Draw(t, "stopdelay"),
		TxTraffic: rapid.Bool().Draw(t, "txtraffic")}
	p.Start = rapid.IntRange(1, p.Blocks).Draw(t, "start")
	if p.Action != "stop" && p.Trigger == "blocks" && rapid.Bool().Draw(t, "deep") {
		// connection lost in the middle of a long download: more than the 10-request window pending
		p.Blocks = rapid.IntRange(18, 40).Draw(t, "deepblocks")
		p.Start = rapid.IntRange(1, 3).Draw(t, "deepstart")
		p.K = rapid.IntRange(0, 4).Draw(t, "deepk")
	}
	if rapid.IntRange(0, 7).Draw(t, "flood") == 0 {
		// the stop request finds the unconfirmed-tx queue full with producers waiting
		p.Trigger, p.Action, p.TxTraffic = "insync", rapid.SampledFrom([]string{"stop", "stop", "close-stop"}).Draw(t, "floodaction"), false
		p.ApiFlood = rapid.SampledFrom([]int{130, 180}).Draw(t, "apiflood")
		p.K = rapid.IntRange(1, 12).Draw(t, "floodk")
		return p
	}
	if rapid.IntRange(0, 2).Draw(t, "slow") == 0 {
		p.SlowOp = rapid.SampledFrom([]string{"write", "write", "read", "fetch", "fetch"}).Draw(t, "slowop")
		p.SlowK = rapid.IntRange(0, 3).Draw(t, "slowk")
		p.SlowMs = rapid.SampledFrom([]int{60, 150, 400}).Draw(t, "slowms")
		p.SlowEarly = rapid.Bool().Draw(t, "slowearly")
	}
	return p
}

const c19Rule = "live mode: the real Node.Run against a reactive scripted peer on loopback TCP (serves headers/blocks from a generated chain with transactions, pings every 40 ms, optional inv/tx stream once in sync); at a logical trigger (while connecting, mid-handshake, k-th header request, k-th block served, inside the k-th handler callback, some ms after in-sync, or after streamed transactions were written at a block and then mined) Stop is requested or the connection is closed/reset, in a third of the plans with one storage write / read / output fetch after the trigger taking 60-400 ms longer so that it is in flight during the shutdown or reconnect; oracle: Stop and Run return (30 s), no callback starts after Stop returned, a fresh node reloads exactly the chain / unconfirmed set / peers, after a lost connection the node reconnects with its stored tip, resumes to the peer's tip and never re-announces a height; one plan in eight floods the node through its own API (130-180 transactions from four goroutines, 15 ms per handler callback) so that the stop request finds the unconfirmed-transaction queue full with producers waiting; a verdict counts when the plan fails again with the same key when run on its own (two more tries); non-trivial = the trigger lies strictly inside the protocol exchange (not trigger-not-reached); distinct by plan hash; schedules are sampled by the Go scheduler, not enumerated"

func TestC19Live(t *testing.T) {
	rep := verifkit.NewReport("C19", "TestC19Live", c19Rule)
	defer rep.Finish(t)
	nt := func(f map[string]bool) bool { return !f["trigger-not-reached"] }
	if f := verifkit.ReplayFile("TestC19Live"); f != "" {
		var plan C19Plan
		if _, _, err := verifkit.LoadReplay(f, &plan); err != nil {
			t.Fatal(err)
		}
		for k := 0; k < 5; k++ { // schedule-dependent: repeat
			v, fl := c19Run(&plan)
			rep.Case(verifkit.Hash(plan)+uint64(k), nt(fl), "replay")
			if v != nil {
				rep.AddViolation(v.key, v.what, plan)
				t.Errorf("%s: %s", v.key, v.what)
				return
			}
		}
		return
	}
	const batch = 16
	rapid.Check(t, func(rt *rapid.T) {
		plans := make([]*C19Plan, batch)
		for i := range plans {
			plans[i] = genC19(rt)
		}
		type result struct {
			v *nodeViolation
			f map[string]bool
		}
		results := make([]result, batch)
		var wg sync.WaitGroup
		for i := range plans {
			wg.Add(1)
			go func(i int) {
				defer wg.Done()
				v, f := c19Run(plans[i])
				results[i] = result{v, f}
			}(i)
		}
		wg.Wait()
		for i, r := range results {
			rep.Case(verifkit.Hash(plans[i]), nt(r.f), flagList(r.f)...)
			if nt(r.f) && rep.WantSample() {
				rep.Sample(plans[i])
			}
		}
		for i, r := range results {
			if r.v != nil {
				if verifkit.Known(r.v.key) {
					rep.Exclude(r.v.key)
					continue
				}
				// real sockets, threads and wall-clock limits, sixteen plans at a time on a machine that
				// may be busy: a verdict counts when the plan fails again on its own (two more tries)
				again := false
				for k := 0; k < 2 && !again; k++ {
					if v2, _ := c19Run(plans[i]); v2 != nil && v2.key == r.v.key {
						again = true
						r.v = v2
					}
				}
				if !again {
					rep.Label("verdict-not-reproduced:"+r.v.key, 1)
					continue
				}
				// schedule-dependent failures cannot be re-shrunk: record the plan directly
				rep.AddViolation(r.v.key, r.v.what, plans[i])
				rt.Fatalf("%s: %s", r.v.key, r.v.what)
			}
		}
	})
}
