//go:build verif

package spynode

// C03, C05 (node level), C06: transaction histories.

import (
	"strings"
	"testing"

	"github.com/tokenized/spynode/internal/verifkit"

	"pgregory.net/rapid"
)

func genTxSpecs(t *rapid.T, max int) []TxSpec {
	n := rapid.IntRange(2, max).Draw(t, "ntx")
	specs := make([]TxSpec, n)
	for i := range specs {
		sp := TxSpec{Rel: -1, NOuts: rapid.IntRange(0, 1).Draw(t, "nouts")}
		if rapid.IntRange(0, 9).Draw(t, "relevant") < 6 {
			sp.Rel = rapid.IntRange(0, 5).Draw(t, "rel")
			sp.InIn = rapid.IntRange(0, 3).Draw(t, "inin") == 0
		}
		nin := rapid.IntRange(1, 3).Draw(t, "nin")
		used := map[string]bool{}
		for k := 0; k < nin; k++ {
			var in TxInSpec
			if i > 0 && rapid.IntRange(0, 3).Draw(t, "chain") == 0 {
				in = TxInSpec{Tx: rapid.IntRange(0, i-1).Draw(t, "parent"), Out: 0}
				if specs[in.Tx].NOuts > 0 && rapid.Bool().Draw(t, "out1") {
					in.Out = 1
				}
			} else {
				in = TxInSpec{Fund: rapid.IntRange(1, 4).Draw(t, "fund")}
			}
			key := string(rune(in.Fund)) + ":" + string(rune(in.Tx)) + ":" + string(rune(in.Out))
			if used[key] {
				continue
			}
			used[key] = true
			sp.Ins = append(sp.Ins, in)
		}
		specs[i] = sp
	}
	return specs
}

func genTxHist(t *rapid.T, withRestart bool) *TxHistScenario {
	sc := &TxHistScenario{Txs: genTxSpecs(t, 9), Untrusted: rapid.IntRange(0, 2).Draw(t, "untrusted")}
	n := len(sc.Txs)
	ops := []string{"inv", "inv", "invsilent", "reconnect", "tx", "tx", "submit", "txstep", "txstep", "txstep", "deliver", "deliver", "deliver", "udeliver", "udeliver", "ucheck", "mine", "blockstep", "blockstep", "ping"}
	if withRestart {
		ops = append(ops, "restart")
	}
	nev := rapid.IntRange(4, 50).Draw(t, "nev")
	restarts := 0
	for i := 0; i < nev; i++ {
		ev := TxEvent{Op: rapid.SampledFrom(ops).Draw(t, "op")}
		switch ev.Op {
		case "reconnect":
			if rapid.IntRange(0, 3).Draw(t, "rc") != 0 {
				continue
			}
		case "inv", "invsilent":
			ev.Src = rapid.IntRange(0, sc.Untrusted).Draw(t, "src")
			for k, c := 0, rapid.IntRange(1, 3).Draw(t, "cnt"); k < c; k++ {
				ev.Txs = append(ev.Txs, rapid.IntRange(0, n-1).Draw(t, "tx"))
			}
		case "tx":
			ev.Src = rapid.IntRange(0, sc.Untrusted).Draw(t, "src")
			ev.Txs = []int{rapid.IntRange(0, n-1).Draw(t, "tx")}
		case "submit":
			if rapid.IntRange(0, 2).Draw(t, "sub") != 0 {
				continue
			}
			ev.Txs = []int{rapid.IntRange(0, n-1).Draw(t, "tx")}
		case "udeliver", "ucheck":
			if sc.Untrusted == 0 {
				continue
			}
			ev.Src = rapid.IntRange(1, sc.Untrusted).Draw(t, "src")
		case "mine":
			for k, c := 0, rapid.IntRange(0, 4).Draw(t, "cnt"); k < c; k++ {
				ev.Txs = append(ev.Txs, rapid.IntRange(0, n-1).Draw(t, "tx"))
			}
		case "restart":
			if restarts >= 2 || rapid.IntRange(0, 2).Draw(t, "rs") != 0 {
				continue
			}
			restarts++
		}
		sc.Events = append(sc.Events, ev)
	}
	return sc
}

const txHistRule = "step-mode transaction histories on a synced node: up to 9 generated transactions over 4 funding outpoints and chained outputs (k-way conflicts, partial overlaps, chains), about 60% relevant (push in output or input script, 20-byte or raw subscription), arriving by trusted/untrusted inv then body, bare body, local submit, first seen in a block, duplicates from several sources, with generated interleaving of tx-processing and block-processing steps and mined blocks; reference model keyed by txid"

func txHistTest(t *testing.T, prop, test string, prefixes []string, withRestart bool, nontrivial func(map[string]bool) bool, rule string) {
	rep := verifkit.NewReport(prop, test, rule)
	defer rep.Finish(t)
	mine := func(key string) bool {
		for _, p := range prefixes {
			if strings.HasPrefix(key, p) {
				return true
			}
		}
		return false
	}
	runOne := func(sc *TxHistScenario) (*nodeViolation, map[string]bool) {
		res := txHistRun(sc)
		for _, v := range res.violations {
			if mine(v.key) {
				if verifkit.Known(v.key) {
					rep.Exclude(v.key)
					continue
				}
				return v, res.flags
			}
		}
		return nil, res.flags
	}
	replay := func(path string) {
		var sc TxHistScenario
		if _, _, err := verifkit.LoadReplay(path, &sc); err != nil {
			t.Fatalf("replay %s: %v", path, err)
		}
		v, f := runOne(&sc)
		rep.Case(verifkit.Hash(sc), nontrivial(f), "replay")
		if v != nil {
			rep.AddViolation(v.key, v.what, sc)
			t.Errorf("replay %s: %s: %s", path, v.key, v.what)
		}
	}
	if f := verifkit.ReplayFile(test); f != "" {
		replay(f)
		return
	}
	for _, f := range verifkit.RegressionFiles(test) {
		replay(f)
	}
	rapid.Check(t, func(rt *rapid.T) {
		sc := genTxHist(rt, withRestart)
		v, f := runOne(sc)
		rep.Case(verifkit.Hash(sc), nontrivial(f), flagList(f)...)
		if nontrivial(f) && rep.WantSample() {
			rep.Sample(sc)
		}
		if v != nil {
			rep.Fail(v.key, v.what, sc)
			rt.Fatalf("%s: %s", v.key, v.what)
		}
	})
}

func TestC03Delivery(t *testing.T) {
	txHistTest(t, "C03", "TestC03Delivery", []string{"C03/", "TX/"}, false,
		func(f map[string]bool) bool {
			return f["duplicate-body"] || (f["block"] && (f["trusted-inv"] || f["untrusted-body"]))
		},
		txHistRule+"; oracle C03: relevant and seen => exactly one new-transaction notification per handler with the spent output per input, irrelevant => none, duplicates/confirmation => updates only; non-trivial = a body reaches the node twice or a tx is both seen unconfirmed and mined; distinct by scenario hash")
}

func TestC05Conflicts(t *testing.T) {
	txHistTest(t, "C05", "TestC05Conflicts", []string{"C05/", "TX/"}, false,
		func(f map[string]bool) bool { return f["conflict-pair"] },
		txHistRule+"; oracle C05: two unconfirmed txs sharing an outpoint => each relevant one reported unsafe at/after the second is processed and never safe afterwards; txs sharing no outpoint with anything seen are never unsafe; non-trivial = at least one conflicting unconfirmed pair; distinct by scenario hash")
}

func TestC06Cancel(t *testing.T) {
	txHistTest(t, "C06", "TestC06Cancel", []string{"C06/", "TX/"}, false,
		func(f map[string]bool) bool { return f["confirmed-double-spend"] },
		txHistRule+"; oracle C06: a delivered unconfirmed tx that loses an outpoint to a tx confirmed in a processed block gets a cancelled+unsafe update and leaves the mempool, the block is processed normally; non-trivial = at least one delivered unconfirmed tx loses to a block tx; distinct by scenario hash")
}

func TestC11Restart(t *testing.T) {
	txHistTest(t, "C11", "TestC11Restart", []string{"C11/", "TX/"}, true,
		func(f map[string]bool) bool { return f["tracked-across-restart"] },
		txHistRule+"; with clean restarts (save sequence of Run, new Node on the same storage, re-sync) at generated quiescent points; oracle C11: unconfirmed entries keep flags and ms first-seen time across the restart (white-box accessor), re-announcement does not deliver again, later confirmation is an update with a proof the independent verifier accepts, GetTx returns the transaction that was sent to handlers; non-trivial = at least one tracked unconfirmed tx crosses a restart; distinct by scenario hash")
}
