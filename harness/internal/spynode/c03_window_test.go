//go:build verif

package spynode

// C03 under fine-grained interleavings of the transaction-processing and block-processing threads:
// one of the two is held at a generated one of its storage / output-fetcher operations while the
// other runs (or blocks on a lock, in which case the held one is released first). The oracle keeps
// only the clauses of C03 that do not depend on which of two concurrent steps counts as first.

import (
	"context"
	"fmt"
	"testing"
	"time"

	"github.com/tokenized/pkg/bitcoin"
	"github.com/tokenized/pkg/wire"
	"github.com/tokenized/spynode/internal/verifkit"

	"github.com/pkg/errors"
	"pgregory.net/rapid"
)

// C03WEvent is one step of a window history.
type C03WEvent struct {
	Op      string `json:"op"`                // tbody ubody submit txstep mine blockstep race
	Tx      int    `json:"tx,omitempty"`      // tbody/ubody/submit
	Txs     []int  `json:"txs,omitempty"`     // mine: candidates
	Hold    string `json:"hold,omitempty"`    // race: "block" or "tx" is the held thread
	K       int    `json:"k,omitempty"`       // race: held at its K-th gated operation
	TxSteps int    `json:"txsteps,omitempty"` // race with Hold=block: tx steps that run meanwhile
}

// C03WScenario is a complete case.
type C03WScenario struct {
	Txs    []TxSpec    `json:"txs"`
	Events []C03WEvent `json:"events"`
}

// gatedFetcher is the stub output fetcher with the same gate as the store.
type gatedFetcher struct {
	*stubFetcher
	gate func(ctx context.Context, op, key string)
}

func (f *gatedFetcher) GetOutputs(ctx context.Context, ops []wire.OutPoint) ([]bitcoin.UTXO, error) {
	f.gate(ctx, "fetch", "outputs")
	return f.stubFetcher.GetOutputs(ctx, ops)
}

func c03wRun(sc *C03WScenario) (res *txHistResult) {
	res = &txHistResult{flags: map[string]bool{}}
	flags := res.flags
	fetch := newStubFetcher()
	txs := txUniverse(sc.Txs, fetch)
	idOf := map[bitcoin.Hash32]int{}
	for i, tx := range txs {
		idOf[*tx.TxHash()] = i
	}
	tree := verifkit.NewTree(genesisHeader())
	a1 := tree.Add(tree.Genesis, "a1", nil)
	sn, hv := syncedNode(tree, a1, a1, fetch, subUniverse, false)
	if hv != nil {
		res.add("TX/"+hv.key, hv.what)
		return res
	}
	gates := map[string]*holdGate{"block": {Role: "block"}, "tx": {Role: "tx"}}
	hook := func(ctx context.Context, op, key string) {
		gates["block"].hook(ctx, op, key)
		gates["tx"].hook(ctx, op, key)
	}
	sn.store.SetGate(hook)
	sn.node.outputFetcher = &gatedFetcher{fetch, hook}
	blockCtx, txCtx := roleCtx(sn.ctx, "block"), roleCtx(sn.ctx, "tx")

	processed := map[int]bool{} // body went through a tx step
	inBlock := map[int]*verifkit.TBlock{}
	contains := map[*verifkit.TBlock][]int{}
	tip, mined := a1, 0
	var blockErr, txErr string

	rawTxStep := func(ctx context.Context) (ran bool, id int) {
		select {
		case td := <-sn.node.unconfTxChannel.Channel:
			i, known := idOf[*td.Msg.TxHash()]
			if err := sn.node.processUnconfirmedTx(ctx, td); err != nil {
				txErr = err.Error()
			}
			if known {
				return true, i
			}
			return true, -1
		default:
			return false, -1
		}
	}
	rawBlockStep := func(ctx context.Context) *verifkit.TBlock {
		block := sn.node.state.NextBlock()
		if block == nil {
			return nil
		}
		bh := block.GetHeader()
		if err := sn.node.ProcessBlock(ctx, block); err != nil {
			if c := errors.Cause(err); c != ErrBlockNotNextBlock && c != ErrBlockNotAdded {
				blockErr = err.Error()
			}
			return nil
		}
		return tree.ByHash[*bh.BlockHash()]
	}
	afterBlock := func(b *verifkit.TBlock) {
		if b != nil {
			for _, i := range contains[b] {
				inBlock[i] = b
			}
		}
		// the block thread's request for more blocks, then flush what the node queued
		getBlocks := wire.NewMsgGetData()
		for {
			requestHash, _ := sn.node.state.GetNextBlockToRequest()
			if requestHash == nil {
				break
			}
			_ = getBlocks.AddInvVect(wire.NewInvVect(wire.InvTypeBlock, requestHash))
		}
		if len(getBlocks.InvList) > 0 {
			sn.node.queueOutgoing(getBlocks)
		}
		sn.drain()
	}
	defer func() {
		if r := recover(); r != nil {
			res.add("TX/panic", fmt.Sprintf("panic: %v\n%s", r, shortStack()))
		}
	}()

	for _, ev := range sc.Events {
		i := 0
		if len(txs) > 0 {
			i = ev.Tx % len(txs)
		}
		switch ev.Op {
		case "tbody":
			sn.deliver(txs[i])
		case "ubody":
			_ = sn.node.unconfTxChannel.Add(handlersTxData(txs[i], false, false))
		case "submit":
			_ = sn.node.HandleTx(sn.ctx, txs[i])
		case "txstep":
			if ran, id := rawTxStep(txCtx); ran {
				if id >= 0 {
					processed[id] = true
				}
				sn.drain()
			}
		case "mine":
			var list []int
			var body []*wire.MsgTx
			for _, c := range ev.Txs {
				k := c % len(txs)
				ok := inBlock[k] == nil
				for j := range inBlock {
					if j == k || sharesOutpoint(txs[k], txs[j]) {
						ok = false
					}
				}
				for _, j := range list {
					if j == k || sharesOutpoint(txs[k], txs[j]) {
						ok = false
					}
				}
				for _, b := range tip.Path() {
					for _, j := range contains[b] {
						if j == k || sharesOutpoint(txs[k], txs[j]) {
							ok = false
						}
					}
				}
				if ok {
					list = append(list, k)
					body = append(body, txs[k])
				}
			}
			mined++
			nb := tree.Add(tip, fmt.Sprintf("a%d", tip.Height+1), body)
			contains[nb] = list
			tip = nb
			sn.peer.setBest(nb)
			for sn.deliverNext(0) {
			}
			flags["block"] = true
		case "blockstep":
			afterBlock(rawBlockStep(blockCtx))
		case "race":
			held, other := "block", "tx"
			if ev.Hold == "tx" {
				held, other = "tx", "block"
			}
			_ = other
			g := gates[held]
			g.arm(ev.K)
			heldDone := make(chan struct{})
			var heldBlock *verifkit.TBlock
			heldTx := -1
			go func() {
				defer close(heldDone)
				defer func() {
					if r := recover(); r != nil {
						res.add("TX/panic", fmt.Sprintf("panic in the %s thread: %v\n%s", held, r, shortStack()))
					}
				}()
				if held == "block" {
					heldBlock = rawBlockStep(blockCtx)
				} else {
					_, heldTx = rawTxStep(txCtx)
				}
			}()
			isHeld := g.waitHeld(heldDone, 300*time.Millisecond)
			if isHeld {
				flags["race-held-"+held] = true
			} else {
				flags["race-not-reached"] = true
			}
			// the other thread runs beside it
			otherDone := make(chan struct{})
			var otherBlock *verifkit.TBlock
			var otherTxs []int
			go func() {
				defer close(otherDone)
				defer func() {
					if r := recover(); r != nil {
						res.add("TX/panic", fmt.Sprintf("panic beside the held %s thread: %v\n%s", held, r, shortStack()))
					}
				}()
				if held == "block" {
					for k := 0; k < ev.TxSteps; k++ {
						ran, id := rawTxStep(txCtx)
						if !ran {
							break
						}
						if id >= 0 {
							otherTxs = append(otherTxs, id)
						}
					}
				} else {
					otherBlock = rawBlockStep(blockCtx)
				}
			}()
			if isHeld {
				select {
				case <-otherDone:
				case <-time.After(250 * time.Millisecond):
					flags["race-other-blocked"] = true // it waits for something the held thread owns
				}
				g.release()
			}
			<-heldDone
			<-otherDone
			if heldTx >= 0 {
				processed[heldTx] = true
			}
			for _, id := range otherTxs {
				processed[id] = true
			}
			if heldBlock != nil || held == "block" {
				afterBlock(heldBlock)
			}
			if otherBlock != nil || held == "tx" {
				afterBlock(otherBlock)
			}
			sn.drain()
		}
		if blockErr != "" || txErr != "" {
			break
		}
	}
	// finish everything sequentially
	for round := 0; round < 30 && blockErr == "" && txErr == ""; round++ {
		moved := false
		for sn.deliverNext(0) {
			moved = true
		}
		for {
			ran, id := rawTxStep(txCtx)
			if !ran {
				break
			}
			if id >= 0 {
				processed[id] = true
			}
			sn.drain()
			moved = true
		}
		for sn.node.state.BlockRequestsEmpty() == false {
			b := rawBlockStep(blockCtx)
			afterBlock(b)
			if b == nil {
				break
			}
			moved = true
		}
		if !moved {
			break
		}
	}
	if blockErr != "" {
		res.add("TX/block-thread-exit", "block processing failed and its thread would exit: "+blockErr)
	}
	if txErr != "" {
		res.add("TX/tx-thread-exit", "unconfirmed tx processing failed and the node would stop: "+txErr)
	}

	// interleaving-independent clauses of C03
	type note struct {
		kind string
		ev   recEvent
	}
	notes := map[int][]note{}
	count2 := map[bitcoin.Hash32]int{}
	for _, e := range sn.h2.snapshot() {
		if e.Kind == "tx" {
			count2[e.TxID]++
		}
	}
	for _, e := range sn.h1.snapshot() {
		if e.Kind != "tx" && e.Kind != "update" {
			continue
		}
		i, ok := idOf[e.TxID]
		if !ok {
			res.add("C03/unknown-tx-notified", "a notification names a txid that was never given to the node")
			continue
		}
		notes[i] = append(notes[i], note{e.Kind, e})
	}
	for i, sp := range sc.Txs {
		ns := notes[i]
		newCount := 0
		for _, n := range ns {
			if n.kind == "tx" {
				newCount++
			}
		}
		if !specRelevant(sp) {
			if len(ns) > 0 {
				res.add("C03/irrelevant-notified", fmt.Sprintf("tx%d does not match the subscriptions but produced %d notifications", i, len(ns)))
			}
			continue
		}
		b := inBlock[i]
		if (processed[i] || b != nil) && newCount == 0 {
			res.add("C03/not-delivered", fmt.Sprintf("relevant tx%d was processed (unconfirmed %v, in block %v) but never delivered as a new transaction", i, processed[i], b != nil))
		}
		if newCount > 1 {
			res.add("C03/delivered-twice", fmt.Sprintf("relevant tx%d was delivered as new %d times without any reorganisation", i, newCount))
		}
		if count2[*txs[i].TxHash()] != newCount {
			res.add("C03/handlers-differ", fmt.Sprintf("tx%d: the two registered handlers got %d and %d new-transaction notifications", i, newCount, count2[*txs[i].TxHash()]))
		}
		if b != nil {
			ok := false
			for _, n := range ns {
				mp := n.ev.State.MerkleProof
				if mp == nil || *mp.BlockHeader.BlockHash() != b.Hash {
					continue
				}
				if root, good := verifkit.VerifyBranch(n.ev.TxID, mp.Index, mp.Path, mp.DuplicatedIndexes); good && root == b.Header.MerkleRoot {
					ok = true
				}
			}
			if !ok {
				res.add("C03/confirmed-without-proof", fmt.Sprintf("relevant tx%d is in processed block %s but no notification for it carries a valid merkle proof for that block", i, b.Name))
			}
			flags["relevant-confirmed"] = true
		}
		for _, n := range ns {
			if n.kind != "tx" || n.ev.Tx == nil {
				continue
			}
			tx := n.ev.Tx
			if len(tx.Outputs) != len(tx.Tx.TxIn) {
				res.add("C03/spent-outputs-count", fmt.Sprintf("tx%d delivered with %d spent outputs for %d inputs", i, len(tx.Outputs), len(tx.Tx.TxIn)))
				continue
			}
			for k, in := range tx.Tx.TxIn {
				want := fetch.outputs[in.PreviousOutPoint]
				got := tx.Outputs[k]
				if want == nil || got == nil || got.Value != want.Value || string(got.LockingScript) != string(want.LockingScript) {
					res.add("C03/spent-output-wrong", fmt.Sprintf("tx%d input %d: delivered spent output does not equal the output it spends", i, k))
				}
			}
		}
	}
	return res
}

func genC03W(t *rapid.T) *C03WScenario {
	sc := &C03WScenario{Txs: genTxSpecs(t, 6)}
	n := len(sc.Txs)
	for i := range sc.Txs {
		if sc.Txs[i].Rel < 0 && rapid.Bool().Draw(t, "makerel") {
			sc.Txs[i].Rel = rapid.IntRange(0, 5).Draw(t, "rel")
		}
	}
	body := func(label string) C03WEvent {
		return C03WEvent{Op: rapid.SampledFrom([]string{"tbody", "ubody", "ubody", "submit"}).Draw(t, label), Tx: rapid.IntRange(0, n-1).Draw(t, label+"tx")}
	}
	some := func(max int) []int {
		var out []int
		for k, c := 0, rapid.IntRange(0, max).Draw(t, "cnt"); k < c; k++ {
			out = append(out, rapid.IntRange(0, n-1).Draw(t, "mtx"))
		}
		return out
	}
	for r, rounds := 0, rapid.IntRange(1, 3).Draw(t, "rounds"); r < rounds; r++ {
		// some bodies, some of them processed, a block holding generated txs, more bodies queued
		for k, c := 0, rapid.IntRange(0, 3).Draw(t, "pre"); k < c; k++ {
			sc.Events = append(sc.Events, body("pre"))
			if rapid.Bool().Draw(t, "prestep") {
				sc.Events = append(sc.Events, C03WEvent{Op: "txstep"})
			}
		}
		mine := C03WEvent{Op: "mine", Txs: some(4)}
		sc.Events = append(sc.Events, mine)
		q := rapid.IntRange(1, 3).Draw(t, "queued")
		for k := 0; k < q; k++ {
			ev := body("q")
			if len(mine.Txs) > 0 && rapid.Bool().Draw(t, "fromblock") {
				ev.Tx = mine.Txs[rapid.IntRange(0, len(mine.Txs)-1).Draw(t, "pick")] % n
			}
			sc.Events = append(sc.Events, ev)
		}
		race := C03WEvent{Op: "race", Hold: rapid.SampledFrom([]string{"block", "block", "tx"}).Draw(t, "hold"), K: rapid.IntRange(0, 14).Draw(t, "k"), TxSteps: rapid.IntRange(1, q).Draw(t, "txsteps")}
		if race.Hold == "tx" {
			race.K = rapid.IntRange(0, 5).Draw(t, "ktx")
		}
		sc.Events = append(sc.Events, race)
	}
	return sc
}

const c03wRule = "races between the block thread and the transaction thread on a synced node: up to 6 generated transactions (relevant or not, conflicting or chained) queued from trusted/untrusted/local sources, some already processed, a mined block holding generated transactions incl. queued ones; then one thread (ProcessBlock or processUnconfirmedTx, real code in its own goroutine) is held at a generated one of its storage / output-fetcher operations while the other runs beside it (released first if the other blocks on a lock it owns); oracle: the clauses of C03 that do not depend on the order of two concurrent steps - irrelevant never notified, relevant and processed or mined => delivered as new exactly once to both handlers with the spent output per input, mined => some notification carries a proof the independent verifier accepts for that block, neither thread fails; non-trivial = a thread was actually held at an operation; distinct by scenario hash"

func c03wNontrivial(f map[string]bool) bool { return f["race-held-block"] || f["race-held-tx"] }

func TestC03Window(t *testing.T) {
	rep := verifkit.NewReport("C03", "TestC03Window", c03wRule)
	defer rep.Finish(t)
	runOne := func(sc *C03WScenario) (*nodeViolation, map[string]bool) {
		res := c03wRun(sc)
		for _, v := range res.violations {
			if verifkit.Known(v.key) {
				rep.Exclude(v.key)
				continue
			}
			return v, res.flags
		}
		return nil, res.flags
	}
	replay := func(path string) {
		var sc C03WScenario
		if _, _, err := verifkit.LoadReplay(path, &sc); err != nil {
			t.Fatalf("replay %s: %v", path, err)
		}
		v, f := runOne(&sc)
		rep.Case(verifkit.Hash(sc), c03wNontrivial(f), "replay")
		if v != nil {
			rep.AddViolation(v.key, v.what, sc)
			t.Errorf("replay %s: %s: %s", path, v.key, v.what)
		}
	}
	if f := verifkit.ReplayFile("TestC03Window"); f != "" {
		replay(f)
		return
	}
	for _, f := range verifkit.RegressionFiles("TestC03Window") {
		replay(f)
	}
	rapid.Check(t, func(rt *rapid.T) {
		sc := genC03W(rt)
		v, f := runOne(sc)
		rep.Case(verifkit.Hash(sc), c03wNontrivial(f), flagList(f)...)
		if c03wNontrivial(f) && rep.WantSample() {
			rep.Sample(sc)
		}
		if v != nil {
			rep.Fail(v.key, v.what, sc)
			rt.Fatalf("%s: %s", v.key, v.what)
		}
	})
}
