//go:build verif

package spynode

// Schedule ownership for goroutine races: a role-tagged goroutine is held at a generated one of its
// storage / fetcher operations while other real code runs, then released. What runs is always the
// real code in a schedule the Go runtime could have produced (a storage or network call that takes
// long); the harness only chooses where the slow call is.

import (
	"context"
	"sync"
	"time"

	"github.com/tokenized/spynode/internal/verifkit"
)

// holdGate holds the goroutine whose context carries Role at its K-th gated operation.
type holdGate struct {
	Role string

	mu        sync.Mutex
	armed     bool
	countdown int
	paused    chan struct{}
	resume    chan struct{}
	seen      int // gated operations of the role since arm (for reports)
}

func roleCtx(ctx context.Context, role string) context.Context {
	return context.WithValue(ctx, verifkit.RoleKey, role)
}

// hook is installed as MemStore gate and called by the stub fetcher.
func (g *holdGate) hook(ctx context.Context, op, key string) {
	if role, _ := ctx.Value(verifkit.RoleKey).(string); role != g.Role {
		return
	}
	g.mu.Lock()
	if !g.armed {
		g.mu.Unlock()
		return
	}
	g.seen++
	if g.countdown > 0 {
		g.countdown--
		g.mu.Unlock()
		return
	}
	g.armed = false
	p, r := g.paused, g.resume
	g.mu.Unlock()
	close(p)
	<-r
}

func (g *holdGate) arm(k int) {
	g.mu.Lock()
	g.armed, g.countdown, g.seen = true, k, 0
	g.paused, g.resume = make(chan struct{}), make(chan struct{})
	g.mu.Unlock()
}

// disarm returns true if the gate had not fired (nothing is held).
func (g *holdGate) disarm() bool {
	g.mu.Lock()
	defer g.mu.Unlock()
	was := g.armed
	g.armed = false
	return was
}

// waitHeld waits until the role is held, the given goroutine finished first, or the time is up.
// Returns true if the role is held (the caller must release it).
func (g *holdGate) waitHeld(finished <-chan struct{}, d time.Duration) bool {
	select {
	case <-g.paused:
		return true
	case <-finished:
	case <-time.After(d):
	}
	if !g.disarm() {
		<-g.paused // fired in the meantime
		return true
	}
	return false
}

func (g *holdGate) release() { close(g.resume) }
