//go:build verif

package spynode

// C02 with two threads: the block thread is inside ProcessBlock of a block that extends the tip (held
// in the block's merkle-root validation, the one long computation between "is this the next block"
// and "add it to the chain") while the connection thread handles a headers message that reorganises
// the chain below that tip. Everything that runs is the real code; the harness only decides that the
// validation of this block takes long. Afterwards the stored chain must still satisfy C02: every
// block's parent is the block held one height below, both views agree, and the node ends on the
// peer's best chain.

import (
	"fmt"
	"testing"
	"time"

	"github.com/tokenized/pkg/bitcoin"
	"github.com/tokenized/pkg/wire"
	"github.com/tokenized/spynode/internal/verifkit"

	"pgregory.net/rapid"
)

// slowBlock is a block whose merkle-root validation waits for the harness.
type slowBlock struct {
	wire.Block
	entered chan struct{}
	resume  chan struct{}
}

func (b *slowBlock) IsMerkleRootValid() bool {
	close(b.entered)
	<-b.resume
	return b.Block.IsMerkleRootValid()
}

type C02WScenario struct {
	Main   int  `json:"main"`   // processed blocks above the start block before the race
	Depth  int  `json:"depth"`  // the new branch forks this many blocks below the tip (0: it extends the tip with another block)
	Extra  int  `json:"extra"`  // the new branch is Depth+1+Extra blocks long
	NTx    int  `json:"ntx"`    // transactions in the block being processed
	Parse  bool `json:"parse"`  // block message form
	Before bool `json:"before"` // control: the reorganising headers are handled before the block thread starts
}

func c02wRun(sc *C02WScenario) (v *nodeViolation, flags map[string]bool) {
	flags = map[string]bool{}
	fetch := newStubFetcher()
	var specs []TxSpec
	for k := 0; k < sc.NTx; k++ {
		specs = append(specs, TxSpec{Ins: []TxInSpec{{Fund: 40 + k}}, Rel: k%3 - 1})
	}
	txs := txUniverse(specs, fetch)
	tree := verifkit.NewTree(genesisHeader())
	a1 := tree.Add(tree.Genesis, "a1", nil)
	tip := a1
	for k := 0; k < sc.Main; k++ {
		tip = tree.Add(tip, verifkit.ChainName("a", k+2), nil)
	}
	sn, hv := syncedNode(tree, a1, tip, fetch, subUniverse, sc.Parse)
	if hv != nil {
		return &nodeViolation{"C02/" + hv.key, hv.what}, flags
	}
	defer func() {
		if r := recover(); r != nil {
			v = &nodeViolation{"C02/panic", fmt.Sprintf("panic: %v\n%s", r, shortStack())}
		}
	}()
	var universe []bitcoin.Hash32
	note := func(b *verifkit.TBlock) { universe = append(universe, b.Hash) }
	for _, b := range tip.Path() {
		note(b)
	}
	// the block that extends the tip
	next := tree.Add(tip, verifkit.ChainName("a", sc.Main+2), txs)
	note(next)
	sn.peer.setBest(next)
	var blockMsg wire.Message
	for round := 0; round < 20 && blockMsg == nil; round++ {
		// deliver everything except the block itself
		for i := 0; i < len(sn.peer.toNode); i++ {
			if sn.peer.toNode[i].tag == "block" && sn.peer.toNode[i].block == next {
				blockMsg = sn.peer.toNode[i].msg
				sn.peer.toNode = append(sn.peer.toNode[:i], sn.peer.toNode[i+1:]...)
				break
			}
		}
		if blockMsg == nil && !sn.deliverNext(0) {
			sn.ping()
		}
	}
	if blockMsg == nil {
		flags["harness:block-not-requested"] = true
		return nil, flags
	}
	inner, ok := blockMsg.(wire.Block)
	if !ok {
		flags["harness:block-form"] = true
		return nil, flags
	}
	sb := &slowBlock{Block: inner, entered: make(chan struct{}), resume: make(chan struct{})}
	// what the block handler does with a block message
	if !sn.node.state.AddBlock(&next.Hash, sb) {
		flags["harness:block-not-accepted"] = true
		return nil, flags
	}
	// the peer's new best chain
	parent := tip
	for k := 0; k < sc.Depth && parent != a1; k++ {
		parent = parent.Parent // never below the start block
	}
	nb := parent
	for k := 0; k < sc.Depth+1+sc.Extra; k++ {
		nb = tree.Add(nb, fmt.Sprintf("b%d", nb.Height+1), nil)
		note(nb)
	}
	reorganise := func() {
		sn.peer.setBest(nb)
		for sn.deliverNext(0) {
		}
	}
	if sc.Before {
		reorganise()
		flags["control:headers-first"] = true
	}
	done := make(chan struct{})
	dead := ""
	go func() {
		defer close(done)
		defer func() {
			if r := recover(); r != nil {
				dead = fmt.Sprintf("panic: %v", r)
			}
		}()
		dead = sn.blockStepRaw()
	}()
	held := false
	select {
	case <-sb.entered:
		held = true
	case <-done:
	case <-time.After(2 * time.Second):
	}
	if held && !sc.Before {
		flags["block-thread-held-in-validation"] = true
		moved := make(chan struct{})
		go func() { defer close(moved); reorganise() }()
		select {
		case <-moved:
			flags["headers-handled-meanwhile"] = true
			if parent != tip {
				flags["reorg-below-the-block"] = true
			}
		case <-time.After(300 * time.Millisecond):
			// the connection thread waits for something the block thread owns: the block goes first
			flags["headers-waited-for-block-thread"] = true
		}
		close(sb.resume)
		<-moved
	} else if held {
		close(sb.resume)
	}
	select {
	case <-done:
	case <-time.After(90 * time.Second):
		return &nodeViolation{"C02/panic", "ProcessBlock did not return within 90 s"}, flags
	}
	sn.drain()
	if dead != "" {
		flags["block-thread-error"] = true // a refused block is fine; a chain that is not linked is not
	}
	if v := checkChainInvariants(sn, universe, "right after the block thread and the headers message finished"); v != nil {
		return v, flags
	}
	sn.blockThreadDead = ""
	ok2, _ := sn.fairCompletion(func() bool { c, _ := sn.converged(); return c }, 80)
	if v := checkChainInvariants(sn, universe, "after everything was consumed"); v != nil {
		return v, flags
	}
	if !ok2 {
		_, why := sn.converged()
		return &nodeViolation{"C02/window/not-converged", "after the race and the node's own time-outs the node is not on the peer's best chain: " + why}, flags
	}
	return nil, flags
}

func genC02W(t *rapid.T) *C02WScenario {
	return &C02WScenario{Main: rapid.IntRange(1, 6).Draw(t, "main"), Depth: rapid.IntRange(0, 3).Draw(t, "depth"),
		Extra: rapid.IntRange(0, 2).Draw(t, "extra"), NTx: rapid.IntRange(0, 3).Draw(t, "ntx"),
		Parse: rapid.Bool().Draw(t, "parse"), Before: rapid.IntRange(0, 4).Draw(t, "before") == 0}
}

const c02wRule = "two real threads, schedule owned by the harness: a synced node (1-6 blocks above its start block) is inside ProcessBlock of the block that extends its tip, held in that block's merkle-root validation, while the connection thread handles the peer's headers for a branch that forks 0-3 blocks below the tip (one case in five: headers first, as a control); oracle: the stored chain is hash-linked and both views agree right afterwards and after everything was consumed, and the node ends on the peer's best chain; non-trivial = the headers were handled while the block thread was held and the fork is below the tip; distinct by scenario hash"

func c02wNontrivial(f map[string]bool) bool { return f["reorg-below-the-block"] }

func TestC02Window(t *testing.T) {
	rep := verifkit.NewReport("C02", "TestC02Window", c02wRule)
	defer rep.Finish(t)
	runOne := func(sc *C02WScenario) (*nodeViolation, map[string]bool) {
		v, f := c02wRun(sc)
		if v != nil && verifkit.Known(v.key) {
			rep.Exclude(v.key)
			return nil, f
		}
		return v, f
	}
	replay := func(path string) {
		var sc C02WScenario
		if _, _, err := verifkit.LoadReplay(path, &sc); err != nil {
			t.Fatalf("replay %s: %v", path, err)
		}
		v, f := runOne(&sc)
		rep.Case(verifkit.Hash(sc), c02wNontrivial(f), "replay")
		if v != nil {
			rep.AddViolation(v.key, v.what, sc)
			t.Errorf("replay %s: %s: %s", path, v.key, v.what)
		}
	}
	if f := verifkit.ReplayFile("TestC02Window"); f != "" {
		replay(f)
		return
	}
	for _, f := range verifkit.RegressionFiles("TestC02Window") {
		replay(f)
	}
	rapid.Check(t, func(rt *rapid.T) {
		sc := genC02W(rt)
		v, f := runOne(sc)
		rep.Case(verifkit.Hash(sc), c02wNontrivial(f), flagList(f)...)
		if c02wNontrivial(f) && rep.WantSample() {
			rep.Sample(sc)
		}
		if v != nil {
			rep.Fail(v.key, v.what, sc)
			rt.Fatalf("%s: %s", v.key, v.what)
		}
	})
}
