//go:build verif

package spynode

// C07 — Safe is reported only when warranted, once, and never after unsafe.
// Semi-live: everything is stepped by the harness, but the real checkTxDelays goroutine runs.

import (
	"fmt"
	"testing"
	"time"

	"github.com/tokenized/pkg/bitcoin"
	"github.com/tokenized/pkg/wire"
	"github.com/tokenized/spynode/internal/verifkit"

	"pgregory.net/rapid"
)

// C07Event is one step of a C07 history.
type C07Event struct {
	Op  string `json:"op"`            // tinv tbody ubody submit txstep age tick mine blockstep restart
	Tx  int    `json:"tx,omitempty"`  // transaction number
	Ms  int    `json:"ms,omitempty"`  // age: logical milliseconds
	Txs []int  `json:"txs,omitempty"` // mine
	// window: the delay checker is held at its K-th storage operation from now (0 = next) while
	// the Sub events run, then released: a generated point in its relative timing against
	// transaction and block processing
	K   int        `json:"k,omitempty"`
	Sub []C07Event `json:"sub,omitempty"`
}

// C07Scenario is a complete C07 case.
type C07Scenario struct {
	DelayMs int        `json:"safe_delay_ms"`
	Txs     []TxSpec   `json:"txs"`
	Events  []C07Event `json:"events"`
}

type c07Note struct {
	kind  string
	safe  bool
	unsf  bool
	canc  bool
	proof bool
	at    time.Time
	shift time.Duration
}

var c07Start = time.Now()

func c07Run(sc *C07Scenario) (v *nodeViolation, flags map[string]bool) {
	flags = map[string]bool{}
	fetch := newStubFetcher()
	txs := txUniverse(sc.Txs, fetch)
	idOf := map[bitcoin.Hash32]int{}
	for i, tx := range txs {
		idOf[*tx.TxHash()] = i
	}
	tree := verifkit.NewTree(genesisHeader())
	a1 := tree.Add(tree.Genesis, "a1", nil)
	cfg := stepConfig()
	cfg.StartHash = a1.Hash
	cfg.SafeTxDelay = sc.DelayMs
	delay := time.Duration(sc.DelayMs) * time.Millisecond
	peer := newFakePeer(tree, a1)
	gate := &holdGate{Role: "checker"}
	store := verifkit.NewMemStore(true)
	store.SetGate(gate.hook)
	sn := newStepNode(cfg, store, peer, fetch)
	sn.subs = subUniverse
	if err := sn.boot(); err != nil {
		return &nodeViolation{"C07/harness/boot", err.Error()}, flags
	}
	sn.connect()
	if ok, _ := sn.fairCompletion(func() bool { c, _ := sn.converged(); return c && sn.node.state.IsReady() && sn.peer.sendHeaders }, 60); !ok {
		return &nodeViolation{"C07/harness/sync", "no sync"}, flags
	}
	defer func() {
		if r := recover(); r != nil {
			v = &nodeViolation{"C07/panic", fmt.Sprintf("panic: %v\n%s", r, shortStack())}
		}
	}()
	startChecker := func() func() {
		n := sn.node
		done := make(chan struct{})
		go func() { n.checkTxDelays(roleCtx(sn.ctx, "checker")); close(done) }()
		return func() {
			n.lock.Lock()
			n.stopping = true // ends the checker loop of this (finished) node object
			n.lock.Unlock()
			<-done
		}
	}
	stopChecker := startChecker()
	defer func() { stopChecker() }()

	var shift time.Duration // total logical time added through the hook (mirrors sn.shift)
	firstSeen := map[int]time.Time{}
	firstShift := map[int]time.Duration{}
	vouched := map[int]bool{}
	local := map[int]bool{}
	conflicted := map[int]bool{}
	conflictAt := map[int]time.Time{} // when the first conflict of tx i became known (processing finished)
	pool := map[int]bool{}
	confirmed := map[int]bool{}
	delivered := map[int]bool{}
	restartedSince := map[int]bool{} // delivered before a restart
	untrustedFirst := map[int]bool{}
	tipName, tip := 1, a1

	process := func() bool {
		select {
		case td := <-sn.node.unconfTxChannel.Channel:
			i, known := idOf[*td.Msg.TxHash()]
			wasIn := known && sn.node.memPool.TransactionExists(td.Msg.TxHash())
			stamp := time.Now()
			var err error
			guard("processUnconfirmedTx", func() { err = sn.node.processUnconfirmedTx(sn.ctx, td) })
			if err != nil {
				sn.txThreadDead = err.Error()
			}
			sn.drain()
			if traceOn {
				fmt.Printf("[c07 process] tx%d known=%v wasIn=%v trusted=%v safe=%v took %v (since start %v)\n", i, known, wasIn, td.Trusted, td.Safe, time.Since(stamp), time.Since(c07Start))
			}
			if known && td.Trusted {
				vouched[i] = true // a trusted body vouches even when it is a duplicate
			}
			if known && confirmed[i] {
				if _, ok := firstSeen[i]; !ok {
					firstSeen[i] = stamp // late body of a confirmed tx: seen, for overlap purposes
					firstShift[i] = shift
				}
			}
			if known && !wasIn && !confirmed[i] {
				if _, ok := firstSeen[i]; !ok {
					firstSeen[i] = stamp
					firstShift[i] = shift
					if !td.Trusted {
						untrustedFirst[i] = true
					}
				}
				for x := range pool {
					if x != i && sharesOutpoint(txs[x], txs[i]) {
						for _, z := range []int{x, i} {
							if !conflicted[z] {
								conflictAt[z] = time.Now()
							}
							conflicted[z] = true
						}
						flags["conflict"] = true
					}
				}
				pool[i] = true
				if td.Trusted {
					vouched[i] = true
				}
				if td.Safe {
					local[i] = true
				}
				if sc.Txs[i].Rel >= 0 {
					delivered[i] = true
				}
			}
			return true
		default:
			return false
		}
	}

	var exec func(ev C07Event, inWindow bool) *nodeViolation
	exec = func(ev C07Event, inWindow bool) *nodeViolation {
		i := 0
		if len(txs) > 0 {
			i = ev.Tx % len(txs)
		}
		switch ev.Op {
		case "window":
			if inWindow {
				return nil
			}
			gate.arm(ev.K)
			held := false
			select {
			case <-gate.paused:
				held = true
			case <-time.After(350 * time.Millisecond):
				if !gate.disarm() {
					<-gate.paused // fired in the meantime
					held = true
				}
			}
			if !held {
				flags["window-missed"] = true
				return nil
			}
			flags["window-hit"] = true
			// the events run beside the held checker; if they need something the checker holds they
			// block, and the checker is released first (the other order of the two critical sections)
			done := make(chan *nodeViolation, 1)
			go func() {
				var wv *nodeViolation
				defer func() {
					if r := recover(); r != nil {
						wv = &nodeViolation{"C07/panic", fmt.Sprintf("panic: %v\n%s", r, shortStack())}
					}
					done <- wv
				}()
				for _, sub := range ev.Sub {
					if sub.Op == "window" || sub.Op == "restart" || sub.Op == "tick" {
						continue
					}
					if wv = exec(sub, true); wv != nil {
						break
					}
				}
			}()
			var wv *nodeViolation
			select {
			case wv = <-done:
				close(gate.resume)
			case <-time.After(300 * time.Millisecond):
				flags["window-blocked-on-checker"] = true
				close(gate.resume)
				wv = <-done
			}
			time.Sleep(20 * time.Millisecond) // let the released checker finish its pass
			return wv
		case "tinv":
			inv := wire.NewMsgInv()
			h := *txs[i].TxHash()
			_ = inv.AddInvVect(wire.NewInvVect(wire.InvTypeTx, &h))
			if sn.node.state.IsReady() {
				vouched[i] = true
				flags["vouch"] = true
			}
			sn.deliver(inv)
			sn.peer.toNode = nil // the body is only delivered by explicit events
		case "tbody":
			sn.deliver(txs[i])
			flags["vouch"] = true
		case "ubody":
			_ = sn.node.unconfTxChannel.Add(handlersTxData(txs[i], false, false))
			flags["untrusted-body"] = true
		case "submit":
			_ = sn.node.HandleTx(sn.ctx, txs[i])
		case "txstep":
			process()
		case "age":
			d := time.Duration(ev.Ms) * time.Millisecond
			sn.passTime(d)
			shift += d
			if d >= delay {
				flags["delay-crossing"] = true
			}
		case "tick":
			time.Sleep(130 * time.Millisecond)
		case "mine":
			var body []*wire.MsgTx
			var list []int
			inThis := map[int]bool{}
			for _, k := range ev.Txs {
				k = k % len(txs)
				if confirmed[k] || inThis[k] {
					continue
				}
				ok := true
				for j := range inThis {
					if sharesOutpoint(txs[k], txs[j]) {
						ok = false
					}
				}
				for j := range confirmed {
					if sharesOutpoint(txs[k], txs[j]) {
						ok = false
					}
				}
				if !ok {
					continue
				}
				inThis[k] = true
				list = append(list, k)
				body = append(body, txs[k])
			}
			tipName++
			nb := tree.Add(tip, verifkit.ChainName("a", tipName), body)
			tip = nb
			sn.peer.setBest(nb)
			for sn.deliverNext(0) {
			}
			for sn.blockStep() {
			}
			if *sn.node.blocks.LastHash() == nb.Hash {
				for _, k := range list {
					confirmed[k] = true
					delete(pool, k)
					for x := range pool {
						if sharesOutpoint(txs[x], txs[k]) {
							if !conflicted[x] {
								conflictAt[x] = time.Now()
							}
							conflicted[x] = true
							delete(pool, x)
						}
					}
				}
				flags["confirmation"] = true
			}
		case "restart":
			if inWindow {
				return nil
			}
			for process() {
			}
			stopChecker()
			if err := sn.cleanRestart(); err != nil {
				stopChecker = func() {}
				return &nodeViolation{"C07/restart/load-failed", err.Error()}
			}
			sn.store.SetGate(gate.hook)
			if ok, _ := sn.fairCompletion(func() bool { c, _ := sn.converged(); return c && sn.node.state.IsReady() && sn.peer.sendHeaders }, 60); !ok {
				stopChecker = func() {}
				return &nodeViolation{"C07/restart/no-resync", "node did not get back in sync after a clean restart"}
			}
			stopChecker = startChecker()
			pool = map[int]bool{}
			for k := range delivered {
				restartedSince[k] = true
			}
			for k := range vouched {
				if !delivered[k] {
					delete(vouched, k) // an announcement-only vouch lives in the process-local pool
				}
			}
			flags["restart"] = true
		}
		if sn.blockThreadDead != "" {
			return &nodeViolation{"C07/block-thread-exit", sn.blockThreadDead}
		}
		if sn.txThreadDead != "" {
			return &nodeViolation{"C07/tx-thread-exit", sn.txThreadDead}
		}
		return nil
	}
	for _, ev := range sc.Events {
		if ev := exec(ev, false); ev != nil {
			return ev, flags
		}
	}
	for process() {
	}
	// bounded liveness: whatever is eligible must be reported safe within a bounded number of checker ticks
	// liveness is only demanded for transactions that overlap with nothing the node ever saw
	// (a spend of an outpoint also spent by a confirmed or late-arriving tx may rightly stay unsafe)
	overlap := func(i int) bool {
		for j := range txs {
			if j == i {
				continue
			}
			_, seenJ := firstSeen[j]
			if (seenJ || confirmed[j]) && sharesOutpoint(txs[i], txs[j]) {
				return true
			}
		}
		return false
	}
	eligible := func(i int) bool {
		if sc.Txs[i].Rel < 0 || !delivered[i] || local[i] || confirmed[i] || conflicted[i] || overlap(i) || !vouched[i] {
			return false
		}
		if restartedSince[i] && untrustedFirst[i] {
			return false // the vouch of a tx first seen from an untrusted peer lives in the process-local pool
		}
		return true
	}
	notesOf := func(i int) []c07Note {
		var out []c07Note
		for _, e := range sn.h1.snapshot() {
			if (e.Kind == "tx" || e.Kind == "update") && e.TxID == *txs[i].TxHash() {
				out = append(out, c07Note{kind: e.Kind, safe: e.State.Safe, unsf: e.State.UnSafe, canc: e.State.Cancelled, proof: e.State.MerkleProof != nil, at: e.At, shift: e.Shift})
			}
		}
		return out
	}
	needWait := false
	for i := range txs {
		if eligible(i) {
			needWait = true
		}
	}
	if needWait {
		// make every eligible tx old enough, then give the checker its ticks
		sn.passTime(delay + time.Second)
		shift += delay + time.Second
		// 20 checker ticks on a quiet machine; on a loaded one the ticks come late, so the wait goes on
		// for up to 12 s before a missing report is believed (a report that is owed but never comes
		// stays missing however long one waits)
		deadline := time.Now().Add(12 * time.Second)
		for time.Now().Before(deadline) {
			all := true
			for i := range txs {
				if !eligible(i) {
					continue
				}
				ok := false
				for _, n := range notesOf(i) {
					if n.safe {
						ok = true
					}
				}
				if !ok {
					all = false
				}
			}
			if all {
				break
			}
			time.Sleep(60 * time.Millisecond)
		}
		flags["liveness-checked"] = true
	} else {
		// nothing is owed a safe report, but a wrong one could still come: age everything and watch
		// three checker ticks
		watch := false
		for i := range txs {
			if delivered[i] && vouched[i] && !local[i] && !confirmed[i] {
				watch = true
			}
		}
		if watch {
			sn.passTime(delay + time.Second)
			shift += delay + time.Second
			time.Sleep(700 * time.Millisecond)
			flags["watched-for-wrong-safe"] = true
		}
	}
	if traceOn {
		t0 := time.Now()
		for i := range txs {
			for _, n := range notesOf(i) {
				fmt.Printf("[c07 note] tx%d %s safe=%v unsafe=%v cancelled=%v proof=%v at %v (since start %v)\n", i, n.kind, n.safe, n.unsf, n.canc, n.proof, n.at.Sub(t0), n.at.Sub(c07Start))
			}
			if conflicted[i] {
				fmt.Printf("[c07 model] tx%d conflicted at %v confirmed=%v vouched=%v local=%v delivered=%v\n", i, conflictAt[i].Sub(t0), confirmed[i], vouched[i], local[i], delivered[i])
			}
		}
	}
	// judge trajectories. Time of each notification: use the handler's order only; for the age rule
	// we use the moment the harness observes the report (later than the decision: sound).
	for i := range txs {
		ns := notesOf(i)
		sawUnsafe := false
		newlySafe := 0
		prevSafe := false
		for k, n := range ns {
			if n.safe && n.unsf {
				return &nodeViolation{"C07/safe-and-unsafe", fmt.Sprintf("tx%d notification %d has safe and unsafe both set", i, k)}, flags
			}
			if n.canc && !n.unsf {
				return &nodeViolation{"C07/cancelled-not-unsafe", fmt.Sprintf("tx%d notification %d is cancelled but not unsafe", i, k)}, flags
			}
			if sawUnsafe && n.safe {
				return &nodeViolation{"C07/safe-after-unsafe", fmt.Sprintf("tx%d was reported unsafe/cancelled and a later notification (%d, %s) says safe", i, k, n.kind)}, flags
			}
			if n.unsf || n.canc {
				sawUnsafe = true
			}
			if n.safe && !n.proof && !local[i] {
				if !vouched[i] {
					return &nodeViolation{"C07/safe-without-vouch", fmt.Sprintf("tx%d was reported safe although the trusted peer never announced or sent it", i)}, flags
				}
				if fs, ok := firstSeen[i]; ok {
					age := n.at.Sub(fs) + (n.shift - firstShift[i])
					// the first-seen time is stored with millisecond precision (rounded down), so after a
					// restart the node may count up to 1 ms more than the harness measured
					if age < delay-2*time.Millisecond {
						return &nodeViolation{"C07/safe-before-delay", fmt.Sprintf("tx%d was reported safe %v after it was first seen, the configured safe delay is %v", i, age, delay)}, flags
					}
				}
				// a conflict counts as known only if its processing had finished well before this report
				// (two checker ticks), so a report already in flight is not misjudged
				if conflicted[i] && !confirmed[i] && n.at.Sub(conflictAt[i]) > 250*time.Millisecond {
					return &nodeViolation{"C07/safe-with-known-conflict", fmt.Sprintf("tx%d was reported safe %v after a conflicting transaction had been processed", i, n.at.Sub(conflictAt[i]))}, flags
				}
			}
			if n.kind == "update" && n.safe && !prevSafe && !n.proof {
				newlySafe++
			}
			prevSafe = n.safe
		}
		if newlySafe > 1 {
			return &nodeViolation{"C07/safe-reported-twice", fmt.Sprintf("tx%d was reported newly safe %d times", i, newlySafe)}, flags
		}
		if eligible(i) {
			ok := false
			for _, n := range ns {
				if n.safe {
					ok = true
				}
			}
			if !ok {
				return &nodeViolation{"C07/safe-never-reported", fmt.Sprintf("tx%d is vouched for by the trusted peer, has no known conflict, is older than the safe delay and the node stayed in sync, but no safe report arrived within 12 s (more than 100 checker ticks)", i)}, flags
			}
			flags["safe-reported"] = true
		}
	}
	return nil, flags
}

func c07Nontrivial(f map[string]bool) bool {
	return f["vouch"] && (f["conflict"] || f["delay-crossing"] || f["liveness-checked"])
}

func genC07(t *rapid.T) *C07Scenario {
	sc := &C07Scenario{DelayMs: rapid.SampledFrom([]int{200, 1000, 5000}).Draw(t, "delay"), Txs: genTxSpecs(t, 5)}
	for i := range sc.Txs {
		if sc.Txs[i].Rel < 0 && rapid.IntRange(0, 1).Draw(t, "makerel") > 0 {
			sc.Txs[i].Rel = 0
		}
	}
	n := len(sc.Txs)
	nev := rapid.IntRange(3, 24).Draw(t, "nev")
	ticks := 0
	for k := 0; k < nev; k++ {
		ev := C07Event{Op: rapid.SampledFrom([]string{"tinv", "tinv", "tbody", "ubody", "ubody", "submit", "txstep", "txstep", "txstep", "age", "age", "tick", "mine", "blockstep", "restart"}).Draw(t, "op")}
		switch ev.Op {
		case "tinv", "tbody", "ubody":
			ev.Tx = rapid.IntRange(0, n-1).Draw(t, "tx")
		case "submit":
			if rapid.IntRange(0, 2).Draw(t, "s") != 0 {
				continue
			}
			ev.Tx = rapid.IntRange(0, n-1).Draw(t, "tx")
		case "age":
			ev.Ms = rapid.SampledFrom([]int{50, sc.DelayMs - 20, sc.DelayMs + 150, 2 * sc.DelayMs}).Draw(t, "ms")
		case "tick":
			if ticks >= 3 {
				continue
			}
			ticks++
		case "mine":
			if rapid.IntRange(0, 2).Draw(t, "m") != 0 {
				continue
			}
			for c, cnt := 0, rapid.IntRange(0, 2).Draw(t, "cnt"); c < cnt; c++ {
				ev.Txs = append(ev.Txs, rapid.IntRange(0, n-1).Draw(t, "mtx"))
			}
		case "restart":
			if rapid.IntRange(0, 4).Draw(t, "r") != 0 {
				continue
			}
		}
		sc.Events = append(sc.Events, ev)
	}
	// half of the cases end with a generated race window: something was delivered and has aged past
	// the delay, the checker is held at one of its storage operations while other events run
	if rapid.Bool().Draw(t, "window") {
		x := rapid.IntRange(0, n-1).Draw(t, "wtx")
		sc.Events = append(sc.Events, C07Event{Op: rapid.SampledFrom([]string{"tbody", "tbody", "tinv"}).Draw(t, "wsrc"), Tx: x})
		if rapid.Bool().Draw(t, "wub") {
			sc.Events = append(sc.Events, C07Event{Op: "ubody", Tx: x})
		}
		sc.Events = append(sc.Events, C07Event{Op: "txstep"}, C07Event{Op: "txstep"})
		w := C07Event{Op: "window", K: rapid.IntRange(0, 2).Draw(t, "wk")}
		for c, cnt := 0, rapid.IntRange(1, 4).Draw(t, "wcnt"); c < cnt; c++ {
			sub := C07Event{Op: rapid.SampledFrom([]string{"tbody", "ubody", "ubody", "submit", "txstep", "txstep", "mine"}).Draw(t, "wop")}
			switch sub.Op {
			case "tbody", "ubody", "submit":
				sub.Tx = rapid.IntRange(0, n-1).Draw(t, "wstx")
			case "mine":
				for m, mc := 0, rapid.IntRange(0, 2).Draw(t, "wmc"); m < mc; m++ {
					sub.Txs = append(sub.Txs, rapid.IntRange(0, n-1).Draw(t, "wmtx"))
				}
			}
			w.Sub = append(w.Sub, sub)
		}
		if rapid.Bool().Draw(t, "wflush") {
			w.Sub = append(w.Sub, C07Event{Op: "txstep"}, C07Event{Op: "txstep"})
		}
		// the window is armed first, then time passes: the checker's next pass finds the aged tx
		sc.Events = append(sc.Events, C07Event{Op: "age", Ms: sc.DelayMs + 150}, w)
	}
	return sc
}

const c07Rule = "semi-live histories (harness steps everything, the real checkTxDelays goroutine ticks every 100 ms; safe delay 200/1000/5000 ms; logical time = real time + shifts through the hook): untrusted body / trusted inv / trusted body / local submit, conflicts before, between and after the delay expiry, confirmations, clean restarts, and race windows in which the checker goroutine is held at a generated one of its storage operations while generated transaction/block events run; oracle: flag invariants on every notification, safe only if vouched and no known conflict, at most one newly-safe report, and bounded liveness (safe report within 12 s, i.e. more than 100 checker ticks, once eligible); non-trivial = a vouch and either a conflict, a delay crossing or a liveness wait; distinct by scenario hash"

func TestC07Safe(t *testing.T) {
	rep := verifkit.NewReport("C07", "TestC07Safe", c07Rule)
	defer rep.Finish(t)
	replay := func(path string) {
		var sc C07Scenario
		if _, _, err := verifkit.LoadReplay(path, &sc); err != nil {
			t.Fatalf("replay %s: %v", path, err)
		}
		v, f := c07Run(&sc)
		rep.Case(verifkit.Hash(sc), c07Nontrivial(f), "replay")
		if v != nil {
			rep.AddViolation(v.key, v.what, sc)
			t.Errorf("replay %s: %s: %s", path, v.key, v.what)
		}
	}
	if f := verifkit.ReplayFile("TestC07Safe"); f != "" {
		replay(f)
		return
	}
	for _, f := range verifkit.RegressionFiles("TestC07Safe") {
		replay(f)
	}
	rapid.Check(t, func(rt *rapid.T) {
		sc := genC07(rt)
		v, f := c07Run(sc)
		if v != nil && v.key == "C07/safe-never-reported" {
			// bounded-liveness verdicts are confirmed by one re-run before they count
			if v2, _ := c07Run(sc); v2 == nil {
				rep.Label("liveness-not-reproduced", 1)
				v = nil
			}
		}
		rep.Case(verifkit.Hash(sc), c07Nontrivial(f), flagList(f)...)
		if c07Nontrivial(f) && rep.WantSample() {
			rep.Sample(sc)
		}
		if v != nil {
			if verifkit.Known(v.key) {
				rep.Exclude(v.key)
				return
			}
			rep.Fail(v.key, v.what, sc)
			rt.Fatalf("%s: %s", v.key, v.what)
		}
	})
}
