//go:build verif

package spynode

// Transaction universe shared by the transaction-level checks (C03-C07, C11, C12).

import (
	"crypto/sha256"
	"fmt"

	"github.com/tokenized/pkg/bitcoin"
	"github.com/tokenized/pkg/wire"
)

// subUniverse: three 20-byte values and three longer raw values (subscribed as raw data; they match
// through RIPEMD160(SHA256(.))). None is empty or a single small-integer byte.
var subUniverse = func() [][]byte {
	var out [][]byte
	for i := 0; i < 3; i++ {
		h := sha256.Sum256([]byte{byte(i), 's', 'u', 'b'})
		out = append(out, h[:20])
	}
	for i := 0; i < 3; i++ {
		h := sha256.Sum256([]byte{byte(i), 'r', 'a', 'w'})
		out = append(out, append([]byte("raw-subscription-"), h[:16]...))
	}
	return out
}()

// TxIn names the output a generated transaction spends.
type TxInSpec struct {
	Fund int `json:"fund,omitempty"` // >0: funding outpoint number (1-based)
	Tx   int `json:"tx,omitempty"`   // else: output Out of generated tx number Tx (0-based, must be earlier)
	Out  int `json:"out,omitempty"`
}

// TxSpec describes one generated transaction.
type TxSpec struct {
	Ins   []TxInSpec `json:"ins"`
	Rel   int        `json:"rel"`              // -1 irrelevant; 0..5: carries subscription value Rel
	InIn  bool       `json:"in_input"`         // relevant push sits in the first input's unlocking script
	NOuts int        `json:"n_outs,omitempty"` // extra plain outputs (spendable by later txs)
}

const fundCount = 6

func fundOutPoint(n int) wire.OutPoint {
	h := sha256.Sum256([]byte{byte(n), byte(n >> 8), 'f', 'u', 'n', 'd'})
	return wire.OutPoint{Hash: bitcoin.Hash32(h), Index: uint32(n % 2)}
}

func pushScript(data []byte) []byte {
	if len(data) <= 75 {
		return append([]byte{byte(len(data))}, data...)
	}
	return append([]byte{0x4c, byte(len(data))}, data...)
}

func p2pkhLike(hash20 []byte) []byte {
	s := []byte{0x76, 0xa9}
	s = append(s, pushScript(hash20)...)
	return append(s, 0x88, 0xac)
}

// txUniverse builds the transactions of the specs and registers everything spendable with the
// fetcher. Returned slice is index-aligned with specs.
func txUniverse(specs []TxSpec, fetch *stubFetcher) []*wire.MsgTx {
	nFunds := fundCount
	for _, sp := range specs {
		for _, in := range sp.Ins {
			if in.Fund > nFunds {
				nFunds = in.Fund
			}
		}
	}
	for n := 1; n <= nFunds; n++ {
		op := fundOutPoint(n)
		h := sha256.Sum256([]byte{byte(n), 'o', 'w', 'n'})
		fetch.outputs[op] = wire.NewTxOut(uint64(100000+n), p2pkhLike(h[:20]))
	}
	txs := make([]*wire.MsgTx, len(specs))
	for i, sp := range specs {
		tx := wire.NewMsgTx(1)
		for k, in := range sp.Ins {
			var op wire.OutPoint
			if in.Fund > 0 {
				op = fundOutPoint(in.Fund)
			} else if in.Tx < i && txs[in.Tx] != nil {
				op = wire.OutPoint{Hash: *txs[in.Tx].TxHash(), Index: uint32(in.Out)}
			} else {
				op = fundOutPoint(1)
			}
			unlock := []byte{0x01, byte(i)} // one-byte push, never subscribed
			if k == 0 && sp.Rel >= 0 && sp.InIn {
				unlock = append(pushScript([]byte{0x30, 0x44, byte(i)}), pushScript(subUniverse[sp.Rel%len(subUniverse)])...)
			}
			tx.AddTxIn(wire.NewTxIn(&op, unlock))
		}
		// output 0: relevance carrier (or a neutral script), unique per tx
		h := sha256.Sum256([]byte(fmt.Sprintf("neutral-%d", i)))
		script := p2pkhLike(h[:20])
		if sp.Rel >= 0 && !sp.InIn {
			v := subUniverse[sp.Rel%len(subUniverse)]
			if len(v) == 20 {
				script = p2pkhLike(v)
			} else {
				script = append([]byte{0x6a}, pushScript(v)...) // OP_RETURN <raw data>
			}
		}
		tx.AddTxOut(wire.NewTxOut(uint64(5000+i), script))
		for k := 0; k < sp.NOuts; k++ {
			hh := sha256.Sum256([]byte(fmt.Sprintf("extra-%d-%d", i, k)))
			tx.AddTxOut(wire.NewTxOut(uint64(700+k), p2pkhLike(hh[:20])))
		}
		txs[i] = tx
		fetch.addTx(tx)
	}
	return txs
}

// specRelevant is the reference answer for relevance of a spec under the full subscription set.
func specRelevant(sp TxSpec) bool { return sp.Rel >= 0 }
