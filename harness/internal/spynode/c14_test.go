//go:build verif

package spynode

// C14 — Announced transactions are requested from one peer at a time, then re-requested.

import (
	"fmt"
	"sync"
	"testing"
	"time"

	"github.com/tokenized/pkg/bitcoin"
	"github.com/tokenized/pkg/wire"
	"github.com/tokenized/spynode/internal/verifkit"

	"pgregory.net/rapid"
)

// C14Event is one step of a C14 history.
type C14Event struct {
	Op  string `json:"op"`            // inv body time check mine minewin txstep reconnect
	Src int    `json:"src,omitempty"` // 0 trusted, 1..k untrusted
	Txs []int  `json:"txs,omitempty"`
	Ms  int    `json:"ms,omitempty"`
	// minewin: like mine, but the block is processed by its own goroutine which is held at its K-th
	// storage / fetcher operation while the connections in Chk get activity (0 = trusted ping)
	K   int   `json:"k,omitempty"`
	Chk []int `json:"chk,omitempty"`
}

// C14Scenario is a complete C14 case.
type C14Scenario struct {
	NTx       int        `json:"ntx"`
	Untrusted int        `json:"untrusted"`
	Events    []C14Event `json:"events"`
}

type c14Request struct {
	tx   int
	src  int
	at   time.Duration // node time when the current event began: a lower bound of the request time
	step int
	atHi time.Duration // logical time plus the real time spent so far: an upper bound
}

func c14Run(sc *C14Scenario) (v *nodeViolation, flags map[string]bool) {
	flags = map[string]bool{}
	fetch := newStubFetcher()
	specs := make([]TxSpec, sc.NTx)
	for i := range specs {
		specs[i] = TxSpec{Ins: []TxInSpec{{Fund: 20 + i}}, Rel: i%3 - 1}
	}
	txs := txUniverse(specs, fetch)
	idOf := map[bitcoin.Hash32]int{}
	for i, tx := range txs {
		idOf[*tx.TxHash()] = i
	}
	tree := verifkit.NewTree(genesisHeader())
	a1 := tree.Add(tree.Genesis, "a1", nil)
	sn, hv := syncedNode(tree, a1, a1, fetch, subUniverse, false)
	if hv != nil {
		return &nodeViolation{"C14/" + hv.key, hv.what}, flags
	}
	defer func() {
		if r := recover(); r != nil {
			v = &nodeViolation{"C14/panic", fmt.Sprintf("panic: %v\n%s", r, shortStack())}
		}
	}()
	var uns []*stepUntrusted
	for k := 0; k < sc.Untrusted; k++ {
		u := sn.addUntrusted(fmt.Sprintf("10.0.1.%d:8333", k+1))
		u.verify(sn)
		uns = append(uns, u)
	}
	gate := &holdGate{Role: "block"}
	sn.store.SetGate(gate.hook)
	gf := &gatedFetcher{fetch, gate.hook}
	sn.node.outputFetcher = gf
	sn.blockCtx = roleCtx(sn.ctx, "block")
	var clock time.Duration
	shiftBase := sn.shift // the node's time hook may already have been shifted while it synced
	// the node measures its request window on the real clock plus the hook's shifts; the harness
	// knows the shifts exactly (clock) and the real part only as an interval: between zero and the
	// real time the scenario has taken so far (race windows hold a thread for up to half a second)
	startReal := time.Now()
	clockHi := func() time.Duration { return clock + time.Since(startReal) }
	// the node read its clock somewhere between the start of the current event and the moment the
	// harness looks at what it sent: [eventStart, clockHi()]
	eventStart := clockHi()
	var log []c14Request
	seenTrusted := len(sn.peer.txRequests)
	seenUn := make([]int, len(uns))
	collect := func() []c14Request {
		var fresh []c14Request
		for ; seenTrusted < len(sn.peer.txRequests); seenTrusted++ {
			if i, ok := idOf[sn.peer.txRequests[seenTrusted]]; ok {
				fresh = append(fresh, c14Request{i, 0, eventStart, sn.step, clockHi()})
			}
		}
		for k, u := range uns {
			for ; seenUn[k] < len(u.sent); seenUn[k]++ {
				if gd, ok := u.sent[seenUn[k]].(*wire.MsgGetData); ok {
					for _, inv := range gd.InvList {
						if i, ok := idOf[inv.Hash]; ok && inv.Type == wire.InvTypeTx {
							fresh = append(fresh, c14Request{i, k + 1, eventStart, sn.step, clockHi()})
						}
					}
				}
			}
		}
		log = append(log, fresh...)
		for _, r := range fresh {
			sn.trace("REQUEST tx%d on connection %d at %v", r.tx, r.src, r.at)
		}
		return fresh
	}
	collect()
	// model
	lastReq := map[int]time.Duration{}   // lower bound of the time of the last request
	lastReqHi := map[int]time.Duration{} // upper bound
	hasReq := map[int]bool{}
	arrived := map[int]bool{}     // body processed
	queued := map[int]bool{}      // body taken by a handler and waiting for the transaction thread: requests for it are neither demanded nor forbidden
	confirmed := map[int]bool{}   // in a processed block
	reannounced := map[int]bool{} // announced again after its confirmation
	tracked := map[int]map[int]bool{}
	for s := 0; s <= len(uns); s++ {
		tracked[s] = map[int]bool{}
	}
	// the logical clock is exact to the hook's shifts only; real micro/milliseconds pass as well, so
	// the 3 s boundary itself is left undecided (50 ms either side)
	const slack = 50 * time.Millisecond
	// active: the window may still be open (only the least possible elapsed time proves it expired)
	active := func(i int) bool { return hasReq[i] && eventStart-lastReqHi[i] <= 3*time.Second+slack }
	// insideWindow: even the greatest possible elapsed time is inside the window
	insideWindow := func(i int, atHi time.Duration) bool {
		return hasReq[i] && atHi-lastReq[i] < 3*time.Second-slack
	}
	requestedIn := func(fresh []c14Request, tx, src int) bool {
		for _, r := range fresh {
			if r.tx == tx && r.src == src {
				return true
			}
		}
		return false
	}
	judgeFresh := func(fresh []c14Request, where string) *nodeViolation {
		for _, r := range fresh {
			if confirmed[r.tx] && !reannounced[r.tx] {
				return &nodeViolation{"C14/request-after-confirmation", fmt.Sprintf("%s: tx%d was confirmed in a processed block and not announced again, but connection %d was asked for it", where, r.tx, r.src)}
			}
			if arrived[r.tx] {
				return &nodeViolation{"C14/request-after-arrival", fmt.Sprintf("%s: tx%d was requested from connection %d although its body had already arrived and been processed", where, r.tx, r.src)}
			}
			if insideWindow(r.tx, r.atHi) {
				return &nodeViolation{"C14/second-request-in-window", fmt.Sprintf("%s: tx%d was requested from connection %d at most %v after the previous request", where, r.tx, r.src, r.atHi-lastReq[r.tx])}
			}
			hasReq[r.tx] = true
			lastReq[r.tx] = r.at
			lastReqHi[r.tx] = r.atHi
			delete(tracked[r.src], r.tx)
		}
		return nil
	}
	doTxStep := func() (bool, *nodeViolation) {
		select {
		case td := <-sn.node.unconfTxChannel.Channel:
			sn.step++
			var err error
			guard("processUnconfirmedTx", func() { err = sn.node.processUnconfirmedTx(sn.ctx, td) })
			if err != nil {
				return false, &nodeViolation{"C14/tx-thread-exit", err.Error()}
			}
			if i, ok := idOf[*td.Msg.TxHash()]; ok {
				sn.trace("TXSTEP tx%d processed; body in mempool now %v", i, sn.node.memPool.TransactionExists(td.Msg.TxHash()))
			}
			if i, ok := idOf[*td.Msg.TxHash()]; ok && confirmed[i] {
				// a late body of a confirmed tx is dropped and the txid forgotten again
				delete(hasReq, i)
				delete(queued, i)
			} else if ok {
				arrived[i] = true
				delete(queued, i)
				delete(tracked[0], i) // the trusted tracker forgets a processed tx at once
				flags["delivery"] = true
			}
			return true, nil
		default:
			return false, nil
		}
	}
	tipName, tip := 1, a1
	for n, ev := range sc.Events {
		eventStart = clockHi()
		if ev.Src > 0 && ev.Src <= len(uns) && uns[ev.Src-1].closed {
			continue // this connection ended with a reconnect of the node
		}
		where := fmt.Sprintf("event %d %s(src %d, txs %v)", n, ev.Op, ev.Src, ev.Txs)
		if ev.Src > len(uns) {
			continue
		}
		switch ev.Op {
		case "inv":
			inv := wire.NewMsgInv()
			var list []int
			seen := map[int]bool{}
			for _, i := range ev.Txs {
				i = i % sc.NTx
				if seen[i] {
					continue
				}
				seen[i] = true
				list = append(list, i)
				h := *txs[i].TxHash()
				_ = inv.AddInvVect(wire.NewInvVect(wire.InvTypeTx, &h))
			}
			// expectations before delivery
			expectReq := map[int]bool{}
			for _, i := range list {
				if confirmed[i] {
					reannounced[i] = true
				}
				if arrived[i] {
					continue
				}
				if !active(i) && !queued[i] {
					expectReq[i] = true
				}
			}
			if ev.Src == 0 {
				sn.deliver(inv)
			} else {
				uns[ev.Src-1].deliver(sn, inv)
			}
			fresh := collect()
			for _, i := range list {
				if arrived[i] {
					continue
				}
				if expectReq[i] && !requestedIn(fresh, i, ev.Src) && !confirmed[i] {
					return &nodeViolation{"C14/first-request-missing", fmt.Sprintf("%s: tx%d was announced, is not held and has no request inside the 3 s window, but connection %d was not asked for it", where, i, ev.Src)}, flags
				}
				if !expectReq[i] {
					tracked[ev.Src][i] = true
					flags["announced-while-requested"] = true
				}
			}
			if v := judgeFresh(fresh, where); v != nil {
				return v, flags
			}
		case "body":
			for _, i := range ev.Txs {
				tx := txs[i%sc.NTx]
				before := len(sn.node.unconfTxChannel.Channel)
				if ev.Src == 0 {
					sn.deliver(tx)
				} else {
					uns[ev.Src-1].deliver(sn, tx)
				}
				if len(sn.node.unconfTxChannel.Channel) > before {
					queued[i%sc.NTx] = true
				}
			}
			if v := judgeFresh(collect(), where); v != nil {
				return v, flags
			}
		case "txstep":
			if _, v := doTxStep(); v != nil {
				return v, flags
			}
			if v := judgeFresh(collect(), where); v != nil {
				return v, flags
			}
		case "reconnect":
			// the trusted connection is lost and re-established by the same process (Run's restart
			// loop): the transaction thread drains its queue, the untrusted connections are closed, the
			// mempool, the request times and the trusted connection's tracker persist
			for {
				more, v := doTxStep()
				if v != nil {
					return v, flags
				}
				if !more {
					break
				}
			}
			for k, u := range uns {
				u.closed = true
				tracked[k+1] = map[int]bool{}
			}
			// while the connection is down the peer may mine a block with some of the transactions: the
			// node then processes it while catching up (not in sync)
			var minedList []int
			var nb *verifkit.TBlock
			if len(ev.Txs) > 0 {
				var body []*wire.MsgTx
				seen := map[int]bool{}
				for _, i := range ev.Txs {
					i = i % sc.NTx
					if confirmed[i] || seen[i] {
						continue
					}
					seen[i] = true
					minedList = append(minedList, i)
					body = append(body, txs[i])
				}
				tipName++
				nb = tree.Add(tip, verifkit.ChainName("a", tipName), body)
				tip = nb
				sn.peer.best = nb
			}
			sn.reconnect()
			insync := func() bool { return sn.node.state.IsReady() && sn.peer.sendHeaders }
			goal := func() bool { c, _ := sn.converged(); return c && insync() && len(sn.peer.toNode) == 0 }
			inMined := map[int]bool{}
			for _, i := range minedList {
				inMined[i] = true
			}
			processed := func() bool { return nb != nil && sn.node.blocks.Contains(&nb.Hash) }
			// one step of the catch-up; what the connections are asked during a step is judged with
			// what was true before it: a transaction of the block mined meanwhile must not be asked
			// for once that block has been processed; everything else is recorded without a verdict
			var catchV *nodeViolation
			stepDo := func(f func() bool) bool {
				was := processed()
				ok := f()
				for _, r := range collect() {
					if was && inMined[r.tx] && catchV == nil {
						catchV = &nodeViolation{"C14/request-after-confirmation", fmt.Sprintf("%s: tx%d was confirmed by the block the node processed while catching up after the reconnect, and connection %d was asked for it afterwards", where, r.tx, r.src)}
					}
					hasReq[r.tx] = true
					lastReq[r.tx] = r.at
					lastReqHi[r.tx] = r.atHi
					delete(tracked[r.src], r.tx)
				}
				return ok
			}
			// the same completion the other checks use (deliver, process, ping; when nothing moves let the
			// node's own time-outs fire), with the request log read after every step
			idle := 0
			for r := 0; r < 80 && !goal(); r++ {
				before := sn.progress
				for stepDo(func() bool { return sn.deliverNext(0) }) {
					for stepDo(sn.blockStep) {
					}
				}
				stepDo(func() bool { sn.ping(); return false })
				for stepDo(sn.blockStep) {
				}
				if sn.progress != before {
					idle = 0
					continue
				}
				idle++
				if idle > 6 {
					break
				}
				sn.passTime(11 * time.Minute)
				clock = sn.shift - shiftBase
				eventStart = clockHi()
				flags["catch-up-needed-time-outs"] = true
				stepDo(func() bool { sn.timeoutCheck(); return false })
			}
			if !goal() {
				flags["no-resync-after-reconnect"] = true
				return nil, flags // no verdict
			}
			if sn.blockThreadDead != "" {
				return &nodeViolation{"C14/block-thread-exit", sn.blockThreadDead}, flags
			}
			if catchV != nil {
				return catchV, flags
			}
			clock = sn.shift - shiftBase
			flags["reconnect"] = true
			if nb != nil && *sn.node.blocks.LastHash() == nb.Hash {
				for _, i := range minedList {
					confirmed[i] = true
					reannounced[i] = false
					delete(hasReq, i)
					delete(arrived, i)
					delete(queued, i)
					for s := range tracked {
						delete(tracked[s], i)
					}
				}
				if len(minedList) > 0 {
					flags["confirmed-while-catching-up"] = true
				}
			}
			if v := judgeFresh(collect(), where); v != nil {
				return v, flags
			}
		case "time":
			d := time.Duration(ev.Ms) * time.Millisecond
			sn.passTime(d)
			for _, u := range uns {
				u.un.txTracker.VerifShiftTime(d)
			}
			clock += d
			if ev.Ms > 3000 {
				flags["window-expiry"] = true
			}
		case "check":
			// expectations: everything this connection tracks whose request window has expired
			expect := map[int]bool{}
			for i := range tracked[ev.Src] {
				if !arrived[i] && !confirmed[i] && !active(i) && !queued[i] {
					expect[i] = true
				}
			}
			if ev.Src == 0 {
				sn.ping()
			} else {
				u := uns[ev.Src-1]
				if !u.closed {
					_ = u.un.check(sn.ctx)
					u.drain(sn)
				}
			}
			fresh := collect()
			for i := range expect {
				if !requestedIn(fresh, i, ev.Src) {
					return &nodeViolation{"C14/re-request-missing", fmt.Sprintf("%s: tx%d was requested at least %v ago from another peer that never delivered; connection %d announced it too and just had activity, but was not asked", where, i, eventStart-lastReqHi[i], ev.Src)}, flags
				}
				flags["re-request"] = true
			}
			for i := range tracked[ev.Src] {
				if arrived[i] {
					delete(tracked[ev.Src], i)
				}
			}
			if v := judgeFresh(fresh, where); v != nil {
				return v, flags
			}
		case "mine", "minewin":
			var body []*wire.MsgTx
			var list []int
			seen := map[int]bool{}
			for _, i := range ev.Txs {
				i = i % sc.NTx
				if confirmed[i] || seen[i] {
					continue
				}
				seen[i] = true
				list = append(list, i)
				body = append(body, txs[i])
			}
			tipName++
			nb := tree.Add(tip, verifkit.ChainName("a", tipName), body)
			tip = nb
			sn.peer.setBest(nb)
			for sn.deliverNext(0) {
				// requests issued while the block is still on its way are judged before confirmation
				if v := judgeFresh(collect(), where); v != nil {
					return v, flags
				}
			}
			if ev.Op == "minewin" {
				// the block thread is held somewhere inside ProcessBlock while connections are active
				gate.arm(ev.K)
				done := make(chan struct{})
				go func() {
					defer close(done)
					defer func() {
						if r := recover(); r != nil {
							sn.blockThreadDead = fmt.Sprintf("panic: %v", r)
						}
					}()
					sn.blockStep()
				}()
				if gate.waitHeld(done, 300*time.Millisecond) {
					flags["block-held"] = true
					if traceOn {
						for i, tx := range txs {
							sn.trace("HELD: tx%d in mempool (body) %v; node height %d", i, sn.node.memPool.TransactionExists(tx.TxHash()), sn.node.blocks.LastHeight())
						}
						for k, u := range uns {
							sn.trace("HELD: connection %d tracks %d txids (gate saw %d ops)", k+1, u.un.txTracker.VerifTracked(), gate.seen)
						}
					}
					actDone := make(chan *nodeViolation, 1)
					go func() {
						var wv *nodeViolation
						defer func() { actDone <- wv }()
						for _, src := range ev.Chk {
							if src > len(uns) {
								continue
							}
							if src == 0 {
								_ = sn.node.check(sn.ctx)
							} else if u := uns[src-1]; !u.closed {
								_ = u.un.check(sn.ctx)
							}
						}
					}()
					blocked := false
					select {
					case <-actDone:
					case <-time.After(250 * time.Millisecond):
						// the activity waits for something the block thread owns (or the machine is slow):
						// the block thread goes first; what the connections are asked from here on cannot be
						// ordered against the end of the block, so it is recorded without a verdict
						blocked = true
						flags["activity-blocked-on-block-thread"] = true
						gate.release()
						<-actDone
						<-done
						sn.drain()
						for _, u := range uns {
							u.drain(sn)
						}
						for _, r := range collect() {
							hasReq[r.tx] = true
							lastReq[r.tx] = r.at
							lastReqHi[r.tx] = r.atHi
							delete(tracked[r.src], r.tx)
						}
					}
					if !blocked {
						// what the connections were asked while the block was in the middle of processing
						sn.drain()
						for _, u := range uns {
							u.drain(sn)
						}
						if v := judgeFresh(collect(), where+" [while the block was being processed]"); v != nil {
							gate.release()
							<-done
							return v, flags
						}
						gate.release()
					}
				}
				<-done
				sn.drain()
				for _, u := range uns {
					u.drain(sn)
				}
			}
			for sn.blockStep() {
			}
			if sn.blockThreadDead != "" {
				return &nodeViolation{"C14/block-thread-exit", sn.blockThreadDead}, flags
			}
			if *sn.node.blocks.LastHash() == nb.Hash {
				for _, i := range list {
					confirmed[i] = true
					reannounced[i] = false
					delete(hasReq, i)  // a confirmed txid is forgotten, including its request record
					delete(arrived, i) // ... and its body: only a new announcement may lead to a new request
					for s := range tracked {
						delete(tracked[s], i)
					}
				}
				flags["confirmation"] = true
			}
			if v := judgeFresh(collect(), where); v != nil {
				return v, flags
			}
		}
	}
	// after cleanup nobody asks for a confirmed tx: give every connection activity after the window
	sn.passTime(4 * time.Second)
	clock += 4 * time.Second
	eventStart = clockHi()
	sn.ping()
	for _, u := range uns {
		if !u.closed {
			_ = u.un.check(sn.ctx)
			u.drain(sn)
		}
	}
	for _, r := range collect() {
		if confirmed[r.tx] && !reannounced[r.tx] {
			return &nodeViolation{"C14/request-after-confirmation", fmt.Sprintf("tx%d was confirmed in a processed block and not announced again, but connection %d was asked for it afterwards", r.tx, r.src)}, flags
		}
	}
	return nil, flags
}

func genC14(t *rapid.T) *C14Scenario {
	if rapid.IntRange(0, 14).Draw(t, "bulk") == 0 {
		// bulk profile: more announcements than fit one re-request message (batches of about 100)
		sc := &C14Scenario{NTx: rapid.IntRange(90, 260).Draw(t, "bulkn"), Untrusted: 2}
		all := make([]int, sc.NTx)
		for i := range all {
			all[i] = i
		}
		first := rapid.IntRange(0, 2).Draw(t, "first")
		second := (first + 1 + rapid.IntRange(0, 1).Draw(t, "second")) % 3
		sc.Events = append(sc.Events, C14Event{Op: "inv", Src: first, Txs: all}, C14Event{Op: "inv", Src: second, Txs: all},
			C14Event{Op: "time", Ms: rapid.SampledFrom([]int{500, 3100, 7000}).Draw(t, "wait")}, C14Event{Op: "check", Src: second},
			C14Event{Op: "time", Ms: 3100}, C14Event{Op: "check", Src: first}, C14Event{Op: "check", Src: second})
		return sc
	}
	sc := &C14Scenario{NTx: rapid.IntRange(1, 5).Draw(t, "ntx"), Untrusted: rapid.IntRange(1, 3).Draw(t, "untrusted")}
	reconnects := rapid.IntRange(0, 3).Draw(t, "reconnects") == 0
	n := rapid.IntRange(3, 40).Draw(t, "nev")
	for i := 0; i < n; i++ {
		ev := C14Event{Op: rapid.SampledFrom([]string{"inv", "inv", "inv", "inv", "body", "txstep", "txstep", "time", "time", "check", "check", "check", "mine"}).Draw(t, "op")}
		if reconnects && rapid.IntRange(0, 11).Draw(t, "reconnect") == 0 {
			ev = C14Event{Op: "reconnect"}
			if rapid.Bool().Draw(t, "minedmeanwhile") {
				for k, c := 0, rapid.IntRange(1, 3).Draw(t, "cnt"); k < c; k++ {
					ev.Txs = append(ev.Txs, rapid.IntRange(0, sc.NTx-1).Draw(t, "tx"))
				}
			}
			sc.Events = append(sc.Events, ev)
			continue
		}
		switch ev.Op {
		case "inv":
			ev.Src = rapid.IntRange(0, sc.Untrusted).Draw(t, "src")
			for k, c := 0, rapid.IntRange(1, 3).Draw(t, "cnt"); k < c; k++ {
				ev.Txs = append(ev.Txs, rapid.IntRange(0, sc.NTx-1).Draw(t, "tx"))
			}
		case "body":
			ev.Src = rapid.IntRange(0, sc.Untrusted).Draw(t, "src")
			ev.Txs = []int{rapid.IntRange(0, sc.NTx-1).Draw(t, "tx")}
		case "time":
			ev.Ms = rapid.SampledFrom([]int{500, 2900, 3100, 3100, 7000}).Draw(t, "ms")
		case "check":
			ev.Src = rapid.IntRange(0, sc.Untrusted).Draw(t, "src")
		case "mine":
			if rapid.IntRange(0, 2).Draw(t, "m") != 0 {
				continue
			}
			for k, c := 0, rapid.IntRange(1, 3).Draw(t, "cnt"); k < c; k++ {
				ev.Txs = append(ev.Txs, rapid.IntRange(0, sc.NTx-1).Draw(t, "tx"))
			}
			if rapid.IntRange(0, 3).Draw(t, "win") == 0 {
				ev.Op = "minewin"
				ev.K = rapid.IntRange(0, 12).Draw(t, "k")
				for k, c := 0, rapid.IntRange(1, 3).Draw(t, "nchk"); k < c; k++ {
					ev.Chk = append(ev.Chk, rapid.IntRange(0, sc.Untrusted).Draw(t, "chk"))
				}
			}
		}
		sc.Events = append(sc.Events, ev)
	}
	return sc
}

func c14Nontrivial(f map[string]bool) bool {
	return f["announced-while-requested"] && (f["window-expiry"] || f["delivery"])
}

const c14Rule = "step-mode histories with the real trusted and untrusted inventory handlers and trackers (real UntrustedNode objects, 1..3 of them) over one mempool: inv of overlapping txid sets on any connection (one case in fifteen announces 90-260 txids on two connections, more than one re-request message holds), bodies from any connection, logical time steps (0.5 s, 2.9 s, 3.1 s, 7 s via the time-shift hook), activity/check on a connection, blocks confirming txid sets, reconnects of the trusted connection by the same process (a quarter of the histories; untrusted connections end, mempool, request times and the trusted tracker persist; in half of them the peer has mined a block with generated txs meanwhile, which the node processes while catching up), and blocks whose processing goroutine is held at a drawn storage/fetcher operation while connections get activity; oracle over the per-connection getdata(tx) log with logical time stamps: first request issued, no second request inside the 3 s window, none after the body was processed or confirmed, re-request on the next activity of a connection that announced it; non-trivial = at least two connections announce one txid and a window expiry or a delivery occurs; distinct by scenario hash"

func TestC14Requests(t *testing.T) {
	rep := verifkit.NewReport("C14", "TestC14Requests", c14Rule)
	defer rep.Finish(t)
	replay := func(path string) {
		var sc C14Scenario
		if _, _, err := verifkit.LoadReplay(path, &sc); err != nil {
			t.Fatalf("replay %s: %v", path, err)
		}
		v, f := c14Run(&sc)
		rep.Case(verifkit.Hash(sc), c14Nontrivial(f), "replay")
		if v != nil {
			rep.AddViolation(v.key, v.what, sc)
			t.Errorf("replay %s: %s: %s", path, v.key, v.what)
		}
	}
	if f := verifkit.ReplayFile("TestC14Requests"); f != "" {
		replay(f)
		return
	}
	for _, f := range verifkit.RegressionFiles("TestC14Requests") {
		replay(f)
	}
	rapid.Check(t, func(rt *rapid.T) {
		sc := genC14(rt)
		v, f := c14Run(sc)
		rep.Case(verifkit.Hash(sc), c14Nontrivial(f), flagList(f)...)
		if c14Nontrivial(f) && rep.WantSample() {
			rep.Sample(sc)
		}
		if v != nil {
			if verifkit.Known(v.key) {
				rep.Exclude(v.key)
				return
			}
			rep.Fail(v.key, v.what, sc)
			rt.Fatalf("%s: %s", v.key, v.what)
		}
	})
}

// TestC14Concurrent: k goroutines announce the same txids at once; exactly one request per txid.
func TestC14Concurrent(t *testing.T) {
	rep := verifkit.NewReport("C14", "TestC14Concurrent", "concurrent sub-check: 6 goroutines call the real inventory handlers (1 trusted + 5 untrusted over one mempool) with the same 8 txids simultaneously, schedule left to the Go scheduler (run under -race in the thorough tier); oracle: exactly one getdata per txid in total; non-trivial = every round (all rounds contend); distinct by round number")
	defer rep.Finish(t)
	rounds := 60
	if verifkit.Tier() == "thorough" {
		rounds = 400
	}
	for round := 0; round < rounds; round++ {
		fetch := newStubFetcher()
		specs := make([]TxSpec, 8)
		for i := range specs {
			specs[i] = TxSpec{Ins: []TxInSpec{{Fund: 40 + i + round%3}}, Rel: -1}
		}
		txs := txUniverse(specs, fetch)
		tree := verifkit.NewTree(genesisHeader())
		a1 := tree.Add(tree.Genesis, "a1", nil)
		sn, hv := syncedNode(tree, a1, a1, fetch, subUniverse, false)
		if hv != nil {
			t.Fatalf("%s: %s", hv.key, hv.what)
		}
		var uns []*stepUntrusted
		for k := 0; k < 5; k++ {
			u := sn.addUntrusted(fmt.Sprintf("10.0.2.%d:8333", k+1))
			u.verify(sn)
			uns = append(uns, u)
		}
		inv := func() *wire.MsgInv {
			m := wire.NewMsgInv()
			for _, tx := range txs {
				h := *tx.TxHash()
				_ = m.AddInvVect(wire.NewInvVect(wire.InvTypeTx, &h))
			}
			return m
		}
		var wg sync.WaitGroup
		start := make(chan struct{})
		wg.Add(6)
		go func() { defer wg.Done(); <-start; _ = sn.node.handleMessage(sn.ctx, inv()) }()
		for _, u := range uns {
			u := u
			go func() { defer wg.Done(); <-start; _ = u.un.handleMessage(sn.ctx, inv()) }()
		}
		close(start)
		wg.Wait()
		sn.drain()
		count := map[bitcoin.Hash32]int{}
		for _, h := range sn.peer.txRequests {
			count[h]++
		}
		for _, u := range uns {
			u.drain(sn)
			for _, m := range u.sent {
				if gd, ok := m.(*wire.MsgGetData); ok {
					for _, iv := range gd.InvList {
						count[iv.Hash]++
					}
				}
			}
		}
		rep.Case(uint64(round), true, "round")
		for i, tx := range txs {
			if c := count[*tx.TxHash()]; c != 1 {
				rep.AddViolation("C14/concurrent/request-count", fmt.Sprintf("round %d: tx%d announced concurrently by 6 connections was requested %d times (want exactly 1)", round, i, c), map[string]int{"round": round})
				t.Errorf("tx%d requested %d times", i, c)
				return
			}
		}
	}
	rep.Sample(map[string]interface{}{"goroutines": 6, "txids": 8, "rounds": rounds})
}
