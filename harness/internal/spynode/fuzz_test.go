//go:build verif

package spynode

// Native fuzz target (thorough tier) for C08: raw script bytes, differential against the
// harness's own push parser with the whole universe subscribed.

import (
	"fmt"
	"testing"

	"github.com/tokenized/pkg/bitcoin"
	"github.com/tokenized/pkg/wire"
	"github.com/tokenized/spynode/internal/verifkit"
)

func fuzzScriptBody(data []byte) string {
	ctx := quietCtx()
	node := NewNode(stepConfig(), verifkit.NewMemStore(true), nil, nil)
	_ = node.SubscribePushDatas(ctx, subUniverse)
	model := map[[20]byte]bool{}
	for _, v := range subUniverse {
		model[refKey(v)] = true
	}
	// split: first byte = length of the output script, rest is the input script
	var out, in []byte
	if len(data) > 0 {
		n := int(data[0])
		rest := data[1:]
		if n > len(rest) {
			n = len(rest)
		}
		out, in = rest[:n], rest[n:]
	}
	tx := wire.NewMsgTx(1)
	var prev bitcoin.Hash32
	tx.AddTxIn(wire.NewTxIn(wire.NewOutPoint(&prev, 0), in))
	tx.AddTxOut(wire.NewTxOut(1, out))
	want := false
	for _, s := range [][]byte{out, in} {
		for _, p := range refPushes(s) {
			if model[refKey(p)] {
				want = true
			}
		}
	}
	got := node.IsRelevant(ctx, tx)
	if got != want {
		return fmt.Sprintf("C08/fuzz: IsRelevant=%v, reference filter %v for output script %x input script %x", got, want, out, in)
	}
	return ""
}

func FuzzScript(f *testing.F) {
	for _, v := range subUniverse {
		s := pushScript(v)
		f.Add(append([]byte{byte(len(s))}, s...))
		f.Add(append([]byte{0}, s...))
		p := p2pkhLike(v[:minInt2(20, len(v))])
		f.Add(append([]byte{byte(len(p))}, p...))
		f.Add(append(append([]byte{byte(len(s) + 3)}, 0x4c, 0xff, 0x6a), s...))
		f.Add(append([]byte{3, 0x4d, 0x14, 0x00}, v...))
	}
	f.Fuzz(func(t *testing.T, data []byte) {
		if v := fuzzScriptBody(data); v != "" {
			t.Fatal(v)
		}
	})
}

func minInt2(a, b int) int {
	if a < b {
		return a
	}
	return b
}

// FuzzScriptInput is the replay form.
type FuzzScriptInput struct {
	Hex string `json:"hex"`
}

func TestFuzzScriptReplay(t *testing.T) {
	rep := verifkit.NewReport("C08", "TestFuzzScriptReplay", "replay of inputs found by the native fuzz campaign FuzzScript")
	defer rep.Finish(t)
	run := func(path string) {
		var in FuzzScriptInput
		if _, _, err := verifkit.LoadReplay(path, &in); err != nil {
			return
		}
		b := []byte{}
		fmt.Sscanf(in.Hex, "%x", &b)
		rep.Case(verifkit.HashBytes(b), true, "replay")
		if v := fuzzScriptBody(b); v != "" {
			rep.AddViolation("C08/fuzz/FuzzScript", v, &in)
			t.Errorf("%s", v)
		}
	}
	if f := verifkit.ReplayFile("TestFuzzScriptReplay"); f != "" {
		run(f)
		return
	}
	for _, f := range verifkit.RegressionFiles("TestFuzzScriptReplay") {
		run(f)
	}
}
