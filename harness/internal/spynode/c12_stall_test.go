//go:build verif

package spynode

// C12 with untrusted peers that stop reading: in step mode a verified untrusted connection keeps the
// production size of its outgoing queue (100 messages) and, once it "stalls", is never drained again
// (its peer does not read and the socket is full). Steps of that connection run in their own
// goroutine, as they do in production, and may block for good; every step of the trusted side runs
// under a watchdog and must still complete, and the node must still reach the trusted peer's tip.

import (
	"fmt"
	"testing"
	"time"

	"github.com/tokenized/pkg/bitcoin"
	"github.com/tokenized/pkg/wire"
	"github.com/tokenized/spynode/internal/handlers"
	"github.com/tokenized/spynode/internal/verifkit"

	"pgregory.net/rapid"
)

// C12SEvent is one step of a stall history.
type C12SEvent struct {
	Op   string `json:"op"`             // uinv stall time ucheck mine tinv ping
	Conn int    `json:"conn,omitempty"` // untrusted connection 0..k-1
	From int    `json:"from,omitempty"` // uinv/tinv: txid space [From, From+N)
	N    int    `json:"n,omitempty"`
	Ms   int    `json:"ms,omitempty"`
}

// C12SScenario is a complete case.
type C12SScenario struct {
	Untrusted int         `json:"untrusted"`
	Events    []C12SEvent `json:"events"`
}

func c12sTxid(i int) bitcoin.Hash32 {
	var h bitcoin.Hash32
	h[0], h[1], h[2], h[3] = byte(i), byte(i>>8), byte(i>>16), byte(i>>24)
	h[31] = 0x99
	return h
}

func c12sRun(sc *C12SScenario) (v *nodeViolation, flags map[string]bool) {
	flags = map[string]bool{}
	fetch := newStubFetcher()
	tree := verifkit.NewTree(genesisHeader())
	prev := tree.Genesis
	for b := 1; b <= 8; b++ {
		prev = tree.Add(prev, verifkit.ChainName("a", b), nil)
	}
	sn, hv := syncedNode(tree, tree.ByName["a1"], prev, fetch, subUniverse, false)
	if hv != nil {
		return &nodeViolation{"C12/" + hv.key, hv.what}, flags
	}
	tip := prev
	type conn struct {
		u       *stepUntrusted
		stalled bool
		wedged  bool // its goroutine is blocked for good
	}
	var conns []*conn
	for k := 0; k < sc.Untrusted; k++ {
		address := fmt.Sprintf("10.8.0.%d:8333", k+1)
		un := NewUntrustedNode(address, sn.cfg, sn.node.state, sn.store, sn.node.peers, sn.node.blocks, sn.node.txs,
			sn.node.memPool, &sn.node.unconfTxChannel, sn.node.handlers, sn.node, false)
		un.messageHandlers = handlers.NewUntrustedMessageHandlers(sn.ctx, un.trustedState, un.untrustedState, un.peers,
			un.blocks, un.txTracker, un.memPool, un.txChannel, un.isRelevant, un.address)
		_ = un.outgoing.Open(100) // the size UntrustedNode.Run uses
		un.active = true
		un.untrustedState.MarkConnected()
		sn.node.untrustedLock.Lock()
		sn.node.untrustedNodes = append(sn.node.untrustedNodes, un)
		sn.node.untrustedLock.Unlock()
		u := &stepUntrusted{un: un, has: map[bitcoin.Hash32]*wire.MsgTx{}}
		u.verify(sn)
		if !un.untrustedState.IsReady() {
			return &nodeViolation{"C12/harness/verify", "honest untrusted handshake was not accepted"}, flags
		}
		conns = append(conns, &conn{u: u})
	}
	// a trusted-side step must complete whatever the untrusted connections do
	trusted := func(what string, f func()) *nodeViolation {
		done := make(chan struct{})
		go func() { defer close(done); f() }()
		anyStalled := false
		for _, c := range conns {
			if c.stalled {
				anyStalled = true
			}
		}
		if !anyStalled {
			<-done // nothing can hold it up: slowness of the machine is not a verdict
			return nil
		}
		select {
		case <-done:
			return nil
		case <-time.After(3 * time.Second):
		}
		// a step that is merely slow (loaded machine) finishes eventually, a blocked one never does
		select {
		case <-done:
			flags["slow-trusted-step"] = true
			return nil
		case <-time.After(40 * time.Second):
			var w []string
			for i, c := range conns {
				if c.stalled {
					w = append(w, fmt.Sprintf("connection %d stalled (queue %d/100, wedged %v, tracks %d)", i, len(c.u.un.outgoing.Channel), c.wedged, 0))
				}
			}
			return &nodeViolation{"C12/trusted-blocked-by-untrusted", fmt.Sprintf("%s did not complete within 43 s while an untrusted peer was not reading: %v", what, w)}
		}
	}
	// a step of an untrusted connection runs in that connection's goroutine; once stalled it may block
	untrusted := func(c *conn, f func()) {
		if c.wedged {
			return
		}
		if !c.stalled {
			// a reading peer: its queue is drained while the step runs, as the send goroutine does
			done := make(chan struct{})
			go func() { defer close(done); f() }()
			for {
				select {
				case <-done:
					c.u.drain(sn)
					return
				default:
					c.u.drain(sn)
					time.Sleep(50 * time.Microsecond)
				}
			}
		}
		done := make(chan struct{})
		go func() { defer close(done); f() }()
		select {
		case <-done:
		case <-time.After(250 * time.Millisecond):
			c.wedged = true
			flags["untrusted-connection-wedged"] = true
		}
	}
	mkInv := func(from, n int) *wire.MsgInv {
		inv := wire.NewMsgInv()
		for i := from; i < from+n; i++ {
			h := c12sTxid(i)
			_ = inv.AddInvVect(wire.NewInvVect(wire.InvTypeTx, &h))
		}
		return inv
	}
	tipName := 8
	for n, ev := range sc.Events {
		where := fmt.Sprintf("event %d %s", n, ev.Op)
		switch ev.Op {
		case "uinv":
			c := conns[ev.Conn%len(conns)]
			inv := mkInv(ev.From, ev.N)
			untrusted(c, func() {
				_ = c.u.un.check(sn.ctx)
				_ = c.u.un.handleMessage(sn.ctx, inv)
			})
		case "stall":
			c := conns[ev.Conn%len(conns)]
			c.stalled = true
			flags["stalled"] = true
		case "ucheck":
			c := conns[ev.Conn%len(conns)]
			untrusted(c, func() { _ = c.u.un.check(sn.ctx) })
		case "time":
			d := time.Duration(ev.Ms) * time.Millisecond
			sn.passTime(d)
			for _, c := range conns {
				c.u.un.txTracker.VerifShiftTime(d)
			}
		case "tinv":
			inv := mkInv(ev.From, ev.N)
			if v := trusted(where+" (trusted inventory)", func() { sn.deliver(inv) }); v != nil {
				return v, flags
			}
			sn.peer.toNode = nil
		case "ping":
			if v := trusted(where+" (trusted ping)", func() { sn.ping() }); v != nil {
				return v, flags
			}
		case "mine":
			tipName++
			nb := tree.Add(tip, verifkit.ChainName("a", tipName), nil)
			tip = nb
			sn.peer.setBest(nb)
			if v := trusted(where+" (trusted headers and block delivery)", func() {
				for sn.deliverNext(0) {
				}
			}); v != nil {
				return v, flags
			}
			if v := trusted(where+" (processing the trusted peer's block)", func() {
				for sn.blockStep() {
				}
			}); v != nil {
				return v, flags
			}
			flags["mined-after-stall"] = flags["stalled"]
		}
	}
	var conv bool
	if v := trusted("final convergence", func() {
		conv, _ = sn.fairCompletion(func() bool { c, _ := sn.converged(); return c }, 60)
	}); v != nil {
		return v, flags
	}
	if !conv {
		_, why := sn.converged()
		return &nodeViolation{"C12/stall", "the node does not reach the trusted peer's tip while an untrusted peer is not reading: " + why}, flags
	}
	return nil, flags
}

func genC12S(t *rapid.T) *C12SScenario {
	sc := &C12SScenario{Untrusted: rapid.IntRange(2, 3).Draw(t, "untrusted")}
	space := 0
	nev := rapid.IntRange(6, 30).Draw(t, "nev")
	for i := 0; i < nev; i++ {
		ev := C12SEvent{Op: rapid.SampledFrom([]string{"uinv", "uinv", "uinv", "uinv", "stall", "time", "ucheck", "ucheck", "mine", "tinv", "ping"}).Draw(t, "op"),
			Conn: rapid.IntRange(0, sc.Untrusted-1).Draw(t, "conn")}
		switch ev.Op {
		case "uinv", "tinv":
			ev.N = rapid.SampledFrom([]int{1, 1, 1, 40, 150, 1200, 12000}).Draw(t, "n")
			if space > 0 && rapid.Bool().Draw(t, "again") {
				// the same txids another connection announced
				ev.From = rapid.SampledFrom([]int{0, space / 2}).Draw(t, "from")
			} else {
				ev.From = space
				space += ev.N
			}
		case "time":
			ev.Ms = rapid.SampledFrom([]int{500, 3100, 3100, 7000}).Draw(t, "ms")
		}
		sc.Events = append(sc.Events, ev)
	}
	if rapid.Bool().Draw(t, "profile") {
		// back-pressure profile: connection 0 announces N txids (asked, never delivers), connection 1
		// announces the same and then stalls; k single announcements fill part of its queue; after the
		// request window connection 1 shows activity; then the trusted peer mines
		n := rapid.SampledFrom([]int{300, 2500, 9000, 12000}).Draw(t, "pn")
		k := rapid.IntRange(0, 110).Draw(t, "pk")
		evs := []C12SEvent{{Op: "uinv", Conn: 0, From: space, N: n}, {Op: "uinv", Conn: 1, From: space, N: n}, {Op: "stall", Conn: 1}}
		for j := 0; j < k; j++ {
			evs = append(evs, C12SEvent{Op: "uinv", Conn: 1, From: space + n + j, N: 1})
		}
		evs = append(evs, C12SEvent{Op: "time", Ms: 3100}, C12SEvent{Op: "ucheck", Conn: 1}, C12SEvent{Op: "mine"}, C12SEvent{Op: "ping"}, C12SEvent{Op: "mine"})
		sc.Events = append(sc.Events, evs...)
	}
	return sc
}

const c12sRule = "step-mode histories with 2-3 verified untrusted connections whose outgoing queues have the production size (100) and are never drained once the connection stalls (peer not reading, socket full): announcements of up to 12 000 txids, the same txids from several connections, time steps across the 3 s request window, connection activity, trusted announcements, pings and mined blocks; steps of a stalled connection run in their own goroutine and may block for good; oracle: every trusted-side step (message handling, block processing, ping, final convergence) completes (a step still running after 43 s with a stalled connection present counts as blocked) and the node reaches the trusted peer's tip; non-trivial = the trusted peer mines after a connection stalled; distinct by scenario hash"

func TestC12Stalled(t *testing.T) {
	rep := verifkit.NewReport("C12", "TestC12Stalled", c12sRule)
	defer rep.Finish(t)
	nt := func(f map[string]bool) bool { return f["mined-after-stall"] }
	replay := func(path string) {
		var sc C12SScenario
		if _, _, err := verifkit.LoadReplay(path, &sc); err != nil {
			t.Fatalf("replay %s: %v", path, err)
		}
		v, f := c12sRun(&sc)
		rep.Case(verifkit.Hash(sc), nt(f), "replay")
		if v != nil && !verifkit.Known(v.key) {
			rep.AddViolation(v.key, v.what, sc)
			t.Errorf("replay %s: %s: %s", path, v.key, v.what)
		}
	}
	if f := verifkit.ReplayFile("TestC12Stalled"); f != "" {
		replay(f)
		return
	}
	for _, f := range verifkit.RegressionFiles("TestC12Stalled") {
		replay(f)
	}
	rapid.Check(t, func(rt *rapid.T) {
		sc := genC12S(rt)
		v, f := c12sRun(sc)
		rep.Case(verifkit.Hash(sc), nt(f), flagList(f)...)
		if nt(f) && rep.WantSample() && len(sc.Events) < 25 {
			rep.Sample(sc)
		}
		if v != nil {
			if verifkit.Known(v.key) {
				rep.Exclude(v.key)
				return
			}
			rep.Fail(v.key, v.what, sc)
			rt.Fatalf("%s: %s", v.key, v.what)
		}
	})
}
