//go:build verif

package spynode

// C10 — A crash at any storage write leaves a chain store the node can resume from; a single
// failing storage operation leaves a consistent chain in memory or on restart.

import (
	"fmt"
	"testing"

	"github.com/tokenized/pkg/bitcoin"
	"github.com/tokenized/pkg/wire"
	"github.com/tokenized/spynode/internal/verifkit"

	"pgregory.net/rapid"
)

// C10Scenario is a C01-style plan, optionally preceded by a bulk of honest pre-start headers so
// that the chain straddles a 1000-header file.
type C10Scenario struct {
	Plan C01Scenario `json:"plan"`
	Bulk int         `json:"bulk,omitempty"`
	// Only / OnlyFault restrict a replay to one crash prefix / one fault position (0 = all).
	Only      int `json:"only,omitempty"`
	OnlyFault int `json:"only_fault,omitempty"`
}

type c10Exec struct {
	sn        *stepNode
	tree      *verifkit.Tree
	peer      *fakePeer
	delivered map[bitcoin.Hash32]int // header hash -> step of the message that first carried it
	flags     map[string]bool
	revertAt  [][2]int // mutation index ranges [from,to) issued while a reorganising headers message was handled
}

// c10Execute runs the plan on a recording store. failAt > 0 injects one storage fault.
func c10Execute(sc *C10Scenario, failAt int) (ex *c10Exec, v *nodeViolation) {
	ex = &c10Exec{delivered: map[bitcoin.Hash32]int{}, flags: map[string]bool{}}
	plan := &sc.Plan
	tree := buildTree(&plan.Tree)
	ex.tree = tree
	cfg := stepConfig()
	if b, ok := tree.ByName[plan.Start]; ok {
		cfg.StartHash = b.Hash
	} else {
		cfg.StartHash[0] = 0x77
	}
	best := tree.ByName[plan.InitialBest]
	if best == nil {
		best = tree.Genesis
	}
	peer := newFakePeer(tree, best)
	peer.parseBlocks = plan.ParseBlocks
	ex.peer = peer
	store := verifkit.NewMemStore(true)
	sn := newStepNode(cfg, store, peer, newStubFetcher())
	ex.sn = sn
	store.StepRef = &sn.step
	store.StartLog()
	if failAt > 0 {
		store.FailAt = failAt
	}
	defer func() {
		if r := recover(); r != nil {
			v = &nodeViolation{"C10/panic", fmt.Sprintf("panic at step %d (fault at op %d): %v\n%s", sn.step, failAt, r, shortStack())}
		}
	}()
	if err := sn.boot(); err != nil {
		if failAt > 0 && store.FailHit {
			return ex, nil // a failing load is an error return, nothing more to run
		}
		return ex, &nodeViolation{"C10/harness/boot", err.Error()}
	}
	sn.connect()
	note := func(m wire.Message) {
		if hm, ok := m.(*wire.MsgHeaders); ok {
			for _, h := range hm.Headers {
				hh := *h.BlockHash()
				if _, seen := ex.delivered[hh]; !seen {
					ex.delivered[hh] = sn.step + 1 // deliver() increments the step before handling
				}
			}
		}
	}
	deliver := func(i int) bool {
		if len(peer.toNode) == 0 {
			return false
		}
		if i >= len(peer.toNode) {
			i = 0
		}
		note(peer.toNode[i].msg)
		h0 := sn.node.blocks.LastHeight()
		m0 := len(store.Log)
		ok := sn.deliverNext(i)
		if sn.node.blocks.LastHeight() < h0 || len(store.Log)-m0 > 2 {
			ex.revertAt = append(ex.revertAt, [2]int{m0, len(store.Log)})
		}
		return ok
	}
	if sc.Bulk > 0 {
		// the peer's first headers response carries the bulk; deliver until the node has it
		for k := 0; k < 8 && sn.node.blocks.LastHeight() < sc.Bulk && len(peer.toNode) > 0; k++ {
			deliver(0)
		}
		ex.flags["boundary-profile"] = true
	}
	for _, ev := range plan.Events {
		switch ev.Op {
		case "deliver":
			deliver(0)
		case "ping":
			sn.ping()
		case "blockstep":
			sn.blockStep()
		case "best":
			nb := tree.ByName[ev.Name]
			if nb == nil || nb.Height <= peer.best.Height {
				continue
			}
			if verifkit.ForkPoint(peer.best, nb) != peer.best {
				ex.flags["reorg"] = true
			}
			peer.setBest(nb)
		case "reconnect":
			sn.reconnect()
		case "restart":
			if err := sn.cleanRestart(); err != nil {
				if failAt > 0 {
					return ex, nil
				}
				return ex, &nodeViolation{"C10/restart/load-failed", err.Error()}
			}
			ex.flags["clean-shutdown-save"] = true
		}
	}
	// finish: let the node converge so that the log also covers the tail of the sync
	for r := 0; r < 12+2*len(tree.ByName) && r < 400; r++ {
		if sn.blockThreadDead != "" || len(store.Log) > 6000 {
			// the block thread ended (the real node would restart its connection): a node that is not
			// in sync polls for headers with every message it gets, and the peer answers every poll,
			// so "deliver until nothing is pending" would never end
			break
		}
		moved := false
		for k := 0; len(peer.toNode) > 0 && k < 60; k++ {
			deliver(0)
			moved = true
			for sn.blockStep() {
			}
		}
		sn.ping()
		for sn.blockStep() {
			moved = true
		}
		if c, _ := sn.converged(); c && !moved {
			break
		}
	}
	return ex, nil
}

// c10CheckImage boots a fresh node on the crash image and judges it.
func c10CheckImage(sc *C10Scenario, ex *c10Exec, image *verifkit.MemStore, allowedUpToStep int, what string) *nodeViolation {
	cfg := ex.sn.cfg
	// the peer carries on from where it is: same tree, same best chain, a new connection
	peer := newFakePeer(ex.tree, ex.peer.best)
	peer.parseBlocks = ex.peer.parseBlocks
	sn := newStepNode(cfg, image, peer, newStubFetcher())
	var v *nodeViolation
	func() {
		defer func() {
			if r := recover(); r != nil {
				v = &nodeViolation{"C10/crash/panic", fmt.Sprintf("%s: restart panicked: %v\n%s", what, r, shortStack())}
			}
		}()
		if err := sn.boot(); err != nil {
			v = &nodeViolation{"C10/crash/load-failed", fmt.Sprintf("%s: a new node does not load the surviving storage: %v", what, err)}
			return
		}
		// hash-linked, one branch of the tree, only delivered headers
		n := sn.node.blocks.LastHeight()
		var prev *bitcoin.Hash32
		var prevBlock *verifkit.TBlock
		for h := 0; h <= n; h++ {
			if n > 300 && h > 3 && h < n-40 && !(h%1000 >= 990 || h%1000 <= 10) {
				prev, prevBlock = nil, nil
				continue
			}
			hd, err := sn.node.blocks.Header(sn.ctx, h)
			if err != nil {
				v = &nodeViolation{"C10/crash/unreadable", fmt.Sprintf("%s: loaded chain of height %d cannot read height %d: %v", what, n, h, err)}
				return
			}
			hash := *hd.BlockHash()
			if prev != nil && hd.PrevBlock != *prev {
				v = &nodeViolation{"C10/crash/not-linked", fmt.Sprintf("%s: loaded chain is not hash-linked at height %d (tip %d)", what, h, n)}
				return
			}
			b, ok := ex.tree.ByHash[hash]
			if !ok || b.Height != h {
				v = &nodeViolation{"C10/crash/mixed-branches", fmt.Sprintf("%s: block at height %d of the loaded chain is not a block of the peer's tree at that height", what, h)}
				return
			}
			if prevBlock != nil && b.Parent != prevBlock {
				v = &nodeViolation{"C10/crash/mixed-branches", fmt.Sprintf("%s: loaded chain mixes branches at height %d (%s after %s)", what, h, b.Name, prevBlock.Name)}
				return
			}
			if h > 0 {
				if st, ok := ex.delivered[hash]; !ok || st > allowedUpToStep {
					v = &nodeViolation{"C10/crash/undelivered-header", fmt.Sprintf("%s: loaded chain contains %s, which the peer had not delivered before the crash", what, b.Name)}
					return
				}
			}
			prev, prevBlock = &hash, b
		}
		sn.connect()
		ok, used := sn.fairCompletion(func() bool { c, _ := sn.converged(); return c }, 40+4*len(ex.tree.ByName))
		if !ok {
			_, why := sn.converged()
			v = &nodeViolation{"C10/crash/no-convergence", fmt.Sprintf("%s: after restarting on the surviving storage the node did not converge to the peer's best chain in %d rounds: %s (block thread %q)", what, used, why, sn.blockThreadDead)}
		}
	}()
	return v
}

func c10Run(sc *C10Scenario) (v *nodeViolation, flags map[string]bool, images, faults int) {
	ex, v := c10Execute(sc, 0)
	flags = ex.flags
	if v != nil {
		return v, flags, 0, 0
	}
	log := ex.sn.store.Log
	totalOps := ex.sn.store.OpCount
	flags["mutations>0"] = len(log) > 0
	inRevert := func(i int) bool {
		for _, r := range ex.revertAt {
			if i > r[0] && i < r[1] {
				return true
			}
		}
		return false
	}
	// crash enumeration: every prefix (sampled above 400 mutations, always inside reverts/roll-overs)
	for i := 0; i <= len(log); i++ {
		if sc.Only > 0 && i != sc.Only {
			continue
		}
		if len(log) > 400 && !inRevert(i) && i%7 != 0 && i < len(log)-20 {
			continue
		}
		step := 0
		if i > 0 {
			step = log[i-1].Step
		}
		if inRevert(i) {
			flags["crash-inside-revert"] = true
		}
		image := verifkit.FromImage(nil, log, i, true)
		images++
		if cv := c10CheckImage(sc, ex, image, step, fmt.Sprintf("crash after storage mutation %d of %d", i, len(log))); cv != nil {
			return cv, flags, images, faults
		}
	}
	if sc.Only > 0 && sc.OnlyFault == 0 {
		return nil, flags, images, faults
	}
	// single-fault enumeration
	for j := 1; j <= totalOps; j++ {
		if sc.OnlyFault > 0 && j != sc.OnlyFault {
			continue
		}
		if totalOps > 300 && j%5 != 0 {
			continue
		}
		fx, fv := c10Execute(sc, j)
		faults++
		if fv != nil {
			if fv.key == "C10/panic" {
				return &nodeViolation{"C10/fault/panic", fv.what}, flags, images, faults
			}
			continue
		}
		if !fx.sn.store.FailHit {
			continue
		}
		flags["fault-injected:"+fx.sn.store.FailOp] = true
		what := fmt.Sprintf("storage operation %d (%s) failing once", j, fx.sn.store.FailOp)
		var live *nodeViolation
		if fx.sn.node != nil {
			var universe []bitcoin.Hash32
			for h := range fx.tree.ByHash {
				universe = append(universe, h)
			}
			func() {
				defer func() {
					if r := recover(); r != nil {
						live = &nodeViolation{"C10/fault/panic", fmt.Sprintf("%s: %v", what, r)}
					}
				}()
				live = checkChainInvariants(fx.sn, universe, what)
			}()
		}
		if live == nil {
			continue // consistent chain in memory
		}
		image := fx.sn.store.Clone()
		if rv := c10CheckImage(sc, fx, image, 1<<30, what+" (restart)"); rv != nil {
			return &nodeViolation{"C10/fault/inconsistent-and-unrecoverable", fmt.Sprintf("%s left an inconsistent chain in memory (%s: %s) and a restart does not recover (%s: %s)", what, live.key, live.what, rv.key, rv.what)}, flags, images, faults
		}
	}
	return nil, flags, images, faults
}

func genC10(t *rapid.T) *C10Scenario {
	if rapid.IntRange(0, 5).Draw(t, "profile") == 0 {
		// boundary profile: > 1000 pre-start headers, reorganisation across the file boundary
		main := rapid.IntRange(1001, 1008).Draw(t, "main")
		sc := &C10Scenario{Bulk: main - rapid.IntRange(0, 4).Draw(t, "bulkminus")}
		sc.Plan.Tree = TreeSpec{Main: main, Branches: []BranchSpec{{Tag: "b", Fork: rapid.IntRange(994, main-1).Draw(t, "fork"), Len: rapid.IntRange(2, 16).Draw(t, "blen")}}}
		sc.Plan.InitialBest = verifkit.ChainName("a", main)
		if rapid.Bool().Draw(t, "startfound") {
			sc.Plan.Start = verifkit.ChainName("a", rapid.IntRange(main-3, main).Draw(t, "start"))
		}
		br := sc.Plan.Tree.Branches[0]
		nev := rapid.IntRange(2, 10).Draw(t, "nev")
		bestDone := false
		for i := 0; i < nev; i++ {
			switch rapid.SampledFrom([]string{"deliver", "deliver", "blockstep", "ping", "best", "restart"}).Draw(t, "ev") {
			case "deliver":
				sc.Plan.Events = append(sc.Plan.Events, C01Event{Op: "deliver"})
			case "blockstep":
				sc.Plan.Events = append(sc.Plan.Events, C01Event{Op: "blockstep"})
			case "ping":
				sc.Plan.Events = append(sc.Plan.Events, C01Event{Op: "ping"})
			case "best":
				if !bestDone && br.Fork+br.Len > main {
					sc.Plan.Events = append(sc.Plan.Events, C01Event{Op: "best", Name: verifkit.ChainName("b", br.Fork+br.Len)})
					bestDone = true
				}
			case "restart":
				if rapid.IntRange(0, 2).Draw(t, "rs") == 0 {
					sc.Plan.Events = append(sc.Plan.Events, C01Event{Op: "restart"})
				}
			}
		}
		if !bestDone && br.Fork+br.Len > main {
			sc.Plan.Events = append(sc.Plan.Events, C01Event{Op: "best", Name: verifkit.ChainName("b", br.Fork+br.Len)})
		}
		return sc
	}
	if rapid.IntRange(0, 3).Draw(t, "c01plan") == 0 {
		plan := genC01(t)
		plan.Silent = nil
		if len(plan.Events) > 30 {
			plan.Events = plan.Events[:30]
		}
		return &C10Scenario{Plan: *plan}
	}
	// reorg-dense profile: a branch that overtakes the main chain, announced at a generated point
	main := rapid.IntRange(2, 12).Draw(t, "main")
	fork := rapid.IntRange(0, main-1).Draw(t, "fork")
	blen := main - fork + rapid.IntRange(1, 4).Draw(t, "over")
	sc := &C10Scenario{}
	sc.Plan.Tree = TreeSpec{Main: main, Branches: []BranchSpec{{Tag: "b", Fork: fork, Len: blen}}}
	sc.Plan.InitialBest = verifkit.ChainName("a", main)
	sc.Plan.ParseBlocks = rapid.Bool().Draw(t, "parse")
	switch rapid.IntRange(0, 3).Draw(t, "startkind") {
	case 0:
		sc.Plan.Start = ""
	case 1:
		sc.Plan.Start = "a1"
	default:
		sc.Plan.Start = verifkit.ChainName("a", rapid.IntRange(1, main).Draw(t, "start"))
	}
	pre := rapid.IntRange(0, 3*main+8).Draw(t, "pre")
	for i := 0; i < pre; i++ {
		sc.Plan.Events = append(sc.Plan.Events, C01Event{Op: rapid.SampledFrom([]string{"deliver", "deliver", "blockstep", "ping"}).Draw(t, "ev")})
	}
	sc.Plan.Events = append(sc.Plan.Events, C01Event{Op: "best", Name: verifkit.ChainName("b", fork+blen)})
	post := rapid.IntRange(0, 12).Draw(t, "post")
	for i := 0; i < post; i++ {
		op := rapid.SampledFrom([]string{"deliver", "deliver", "blockstep", "ping", "restart", "reconnect"}).Draw(t, "ev2")
		if (op == "restart" || op == "reconnect") && rapid.IntRange(0, 2).Draw(t, "r") != 0 {
			continue
		}
		sc.Plan.Events = append(sc.Plan.Events, C01Event{Op: op})
	}
	return sc
}

func c10Nontrivial(f map[string]bool) bool {
	return f["crash-inside-revert"] || (f["boundary-profile"] && f["reorg"]) || f["reorg"]
}

const c10Rule = "step-mode executions (C01 plan generator without withheld blocks; one in six a boundary profile with 1001..1008 pre-start headers and a reorganisation across the 1000-header file) on a recording store; crash enumeration = every prefix of the storage mutation log is rebuilt as an image, a fresh node must load it, its chain must be hash-linked, one branch of the tree, made only of headers delivered before the crash, and fair completion must converge; fault enumeration = the plan re-run with the j-th storage operation failing once, for every j; non-trivial = execution contains a reorganisation (crash points inside the revert are enumerated); distinct by scenario hash; evaluations counts executions, images and fault runs are reported separately"

func TestC10Crash(t *testing.T) {
	rep := verifkit.NewReport("C10", "TestC10Crash", c10Rule)
	defer rep.Finish(t)
	totalImages, totalFaults := 0, 0
	defer func() {
		rep.Notes["crash_images_checked"] = fmt.Sprint(totalImages)
		rep.Notes["single_fault_runs"] = fmt.Sprint(totalFaults)
	}()
	replay := func(path string) {
		var sc C10Scenario
		if _, _, err := verifkit.LoadReplay(path, &sc); err != nil {
			t.Fatalf("replay %s: %v", path, err)
		}
		v, f, im, fa := c10Run(&sc)
		totalImages += im
		totalFaults += fa
		rep.Case(verifkit.Hash(sc), c10Nontrivial(f), "replay")
		if v != nil {
			rep.AddViolation(v.key, v.what, sc)
			t.Errorf("replay %s: %s: %s", path, v.key, v.what)
		}
	}
	if f := verifkit.ReplayFile("TestC10Crash"); f != "" {
		replay(f)
		return
	}
	for _, f := range verifkit.RegressionFiles("TestC10Crash") {
		replay(f)
	}
	rapid.Check(t, func(rt *rapid.T) {
		sc := genC10(rt)
		v, f, im, fa := c10Run(sc)
		totalImages += im
		totalFaults += fa
		rep.Case(verifkit.Hash(sc), c10Nontrivial(f), flagList(f)...)
		rep.Label("images", im)
		rep.Label("fault-runs", fa)
		if c10Nontrivial(f) && rep.WantSample() && sc.Bulk == 0 {
			rep.Sample(sc)
		}
		if v != nil {
			if verifkit.Known(v.key) {
				rep.Exclude(v.key)
				return
			}
			rep.Fail(v.key, v.what, sc)
			rt.Fatalf("%s: %s", v.key, v.what)
		}
	})
}
