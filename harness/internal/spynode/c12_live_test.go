//go:build verif

package spynode

// C12 in live mode: the real Run with real UntrustedNode.Run goroutines over loopback sockets.
// Scripted untrusted peers (on the same chain, on an alien chain, or never answering the header
// request) send generated hostile traffic - inventory floods, transactions, blocks with forged
// bodies, fork headers, address floods, garbage frames, half messages, or stop reading altogether -
// while a well-behaved trusted peer keeps mining. Each batch of plans runs in a child process so
// that a crash of the node is attributed to a plan instead of ending the check.

import (
	"bytes"
	"context"
	"encoding/binary"
	"encoding/json"
	"fmt"
	"net"
	"os"
	"os/exec"
	"strings"
	"sync"
	"testing"
	"time"

	"github.com/tokenized/pkg/bitcoin"
	"github.com/tokenized/pkg/wire"
	internalStorage "github.com/tokenized/spynode/internal/storage"
	"github.com/tokenized/spynode/internal/verifkit"

	"pgregory.net/rapid"
)

// C12LAct is one action of an untrusted peer's script.
type C12LAct struct {
	Op string `json:"op"` // inv-flood offer-tx push-tx bad-block fork-headers addr-flood garbage stop-reading sleep close
	N  int    `json:"n,omitempty"`
	K  int    `json:"k,omitempty"`
}

// C12LPeer is one untrusted peer.
type C12LPeer struct {
	Chain string    `json:"chain"` // same alien mute
	Acts  []C12LAct `json:"acts"`
}

// C12LPlan is one live scenario.
type C12LPlan struct {
	Blocks      int        `json:"blocks"`                  // initial chain
	Mine        int        `json:"mine"`                    // blocks the trusted peer mines while the untrusted peers act
	MineDelayMs int        `json:"mine_delay_ms,omitempty"` // wait before the first mined block
	Peers       []C12LPeer `json:"peers"`
}

type c12lResult struct {
	Key   string          `json:"key,omitempty"`
	What  string          `json:"what,omitempty"`
	Flags map[string]bool `json:"flags"`
}

// liveUntrusted is a scripted untrusted Bitcoin peer.
type liveUntrusted struct {
	mu            sync.Mutex
	ln            net.Listener
	spec          C12LPeer
	fp            *fakePeer // same-chain answers
	alien         []*wire.BlockHeader
	own           []*wire.MsgTx // transactions only this peer knows
	badBlock      func(k int) wire.Message
	forkHdrs      func() *wire.MsgHeaders
	conns         int
	done          chan struct{} // script finished (or connection ended)
	doneOnce      sync.Once
	noRead        bool
	sawGetHeaders bool
	lastAct       string
	conn          net.Conn
	queueLen      func() int
}

func (u *liveUntrusted) closeConn() {
	u.mu.Lock()
	c := u.conn
	u.mu.Unlock()
	if c != nil {
		_ = c.Close()
	}
}

func (u *liveUntrusted) finish() { u.doneOnce.Do(func() { close(u.done) }) }

func (u *liveUntrusted) acceptLoop() {
	for {
		c, err := u.ln.Accept()
		if err != nil {
			return
		}
		u.mu.Lock()
		u.conns++
		first := u.conns == 1
		u.mu.Unlock()
		if !first {
			// later connections (the node retries peers) get a plain mute peer
			go func() { time.Sleep(3 * time.Second); _ = c.Close() }()
			continue
		}
		go u.serve(c)
	}
}

func (u *liveUntrusted) send(c net.Conn, m wire.Message) error {
	_ = c.SetWriteDeadline(time.Now().Add(2 * time.Second))
	_, err := wire.WriteMessageN(c, m, wire.ProtocolVersion, wire.BitcoinNet(bitcoin.MainNet))
	return err
}

func (u *liveUntrusted) serve(c net.Conn) {
	defer u.finish()
	u.mu.Lock()
	u.conn = c
	u.mu.Unlock()
	scriptStarted := false
	var wmu sync.Mutex // one writer at a time
	write := func(m wire.Message) error {
		wmu.Lock()
		defer wmu.Unlock()
		return u.send(c, m)
	}
	for {
		u.mu.Lock()
		noRead := u.noRead
		u.mu.Unlock()
		if noRead {
			select {
			case <-u.done:
				return
			case <-time.After(50 * time.Millisecond):
			}
			continue
		}
		// blocking read: the connection is closed by the test when the plan is over
		_, msg, _, err := wire.ReadMessageN(c, wire.ProtocolVersion, wire.BitcoinNet(bitcoin.MainNet))
		if err != nil {
			if me, ok := err.(*wire.MessageError); ok && me.Type == wire.MessageErrorUnknownCommand {
				continue
			}
			if os.Getenv("VERIF_C12L_DEBUG") != "" {
				fmt.Fprintf(os.Stderr, "DEBUG untrusted %s serve ends after act %q: %v\n", u.ln.Addr(), u.lastAct, err)
			}
			return
		}
		if os.Getenv("VERIF_C12L_DEBUG") != "" {
			fmt.Fprintf(os.Stderr, "DEBUG untrusted %s got %s\n", u.ln.Addr(), msg.Command())
		}
		switch m := msg.(type) {
		case *wire.MsgVersion:
			me := wire.NewNetAddressIPPort(net.IPv4(127, 0, 0, 1), 8333, 0)
			you := wire.NewNetAddressIPPort(net.IPv4(127, 0, 0, 1), 9333, 0)
			_ = write(wire.NewMsgVersion(me, you, 11, int32(u.fp.best.Height)))
			_ = write(wire.NewMsgVerAck())
		case *wire.MsgGetHeaders:
			u.mu.Lock()
			u.sawGetHeaders = true
			u.mu.Unlock()
			switch u.spec.Chain {
			case "same":
				u.mu.Lock()
				u.fp.handle(m)
				out := u.fp.toNode
				u.fp.toNode = nil
				u.mu.Unlock()
				for _, pm := range out {
					_ = write(pm.msg)
				}
			case "alien":
				hm := wire.NewMsgHeaders()
				for _, h := range u.alien {
					_ = hm.AddBlockHeader(h)
				}
				_ = write(hm)
			case "mute":
			}
			if !scriptStarted {
				scriptStarted = true
				go func() {
					time.Sleep(150 * time.Millisecond)
					u.script(c, write)
				}()
			}
		case *wire.MsgGetData:
			for _, inv := range m.InvList {
				if inv.Type != wire.InvTypeTx {
					continue
				}
				for _, tx := range u.own {
					if *tx.TxHash() == inv.Hash {
						_ = write(tx)
					}
				}
			}
		}
	}
}

func (u *liveUntrusted) script(c net.Conn, write func(wire.Message) error) {
	defer func() {
		// keep the connection open a little so that the node's replies have somewhere to go
		time.Sleep(150 * time.Millisecond)
		u.finish()
	}()
	raw := func(b []byte) {
		_ = c.SetWriteDeadline(time.Now().Add(2 * time.Second))
		_, _ = c.Write(b)
	}
	frame := func(cmd string, payload []byte, goodChecksum bool, magic uint32) []byte {
		var hdr [24]byte
		binary.LittleEndian.PutUint32(hdr[0:4], magic)
		copy(hdr[4:16], cmd)
		binary.LittleEndian.PutUint32(hdr[16:20], uint32(len(payload)))
		sum := bitcoin.DoubleSha256(payload)
		copy(hdr[20:24], sum[:4])
		if !goodChecksum {
			hdr[20] ^= 0xff
		}
		return append(hdr[:], payload...)
	}
	mainMagic := uint32(wire.BitcoinNet(bitcoin.MainNet))
	for ai, a := range u.spec.Acts {
		select {
		case <-u.done:
			return
		default:
		}
		u.mu.Lock()
		u.lastAct = fmt.Sprintf("%d:%s", ai, a.Op)
		u.mu.Unlock()
		switch a.Op {
		case "sleep":
			time.Sleep(time.Duration(20+a.N%200) * time.Millisecond)
		case "inv-flood":
			for k := 0; k < 1+a.K%6; k++ {
				inv := wire.NewMsgInv()
				n := 1 + a.N%50000
				for i := 0; i < n; i++ {
					var h bitcoin.Hash32
					binary.LittleEndian.PutUint64(h[:8], uint64(i)+uint64(k)<<32+uint64(a.N)<<40)
					h[31] = 0x77
					_ = inv.AddInvVect(wire.NewInvVect(wire.InvTypeTx, &h))
				}
				if write(inv) != nil {
					return
				}
			}
		case "inv-shared":
			// txids from a space shared by all peers of the plan: announced by several, delivered by none
			inv := wire.NewMsgInv()
			for i := 0; i < 1+a.N%2000; i++ {
				var h bitcoin.Hash32
				binary.LittleEndian.PutUint64(h[:8], uint64(i))
				h[31] = 0x55
				_ = inv.AddInvVect(wire.NewInvVect(wire.InvTypeTx, &h))
			}
			if write(inv) != nil {
				return
			}
		case "small-invs":
			// many one-item announcements: each is answered by a separate request message
			for k := 0; k < 1+a.N%400; k++ {
				inv := wire.NewMsgInv()
				var h bitcoin.Hash32
				binary.LittleEndian.PutUint64(h[:8], uint64(k)+uint64(a.K)<<32)
				h[31] = 0x66
				_ = inv.AddInvVect(wire.NewInvVect(wire.InvTypeTx, &h))
				if write(inv) != nil {
					return
				}
			}
		case "fill-queue":
			// one-item announcements until the node has queued a.N request messages for this peer
			// (the node-side queue length is read white-box: it only steers the script)
			target := 60 + a.N%40
			for k := 0; k < 3000; k++ {
				if u.queueLen != nil && u.queueLen() >= target {
					break
				}
				inv := wire.NewMsgInv()
				var h bitcoin.Hash32
				binary.LittleEndian.PutUint64(h[:8], uint64(k)+uint64(a.K)<<32)
				h[31] = 0x44
				_ = inv.AddInvVect(wire.NewInvVect(wire.InvTypeTx, &h))
				if write(inv) != nil {
					return
				}
				if k%20 == 19 {
					time.Sleep(5 * time.Millisecond)
				}
			}
		case "wait-window":
			time.Sleep(3300 * time.Millisecond) // longer than the tx request window
		case "ping":
			_ = write(wire.NewMsgPing(uint64(a.N)))
		case "offer-tx":
			if len(u.own) > 0 {
				tx := u.own[a.N%len(u.own)]
				inv := wire.NewMsgInv()
				_ = inv.AddInvVect(wire.NewInvVect(wire.InvTypeTx, tx.TxHash()))
				_ = write(inv)
			}
		case "push-tx":
			if len(u.own) > 0 {
				_ = write(u.own[a.N%len(u.own)])
			}
		case "bad-block":
			_ = write(u.badBlock(a.N))
		case "fork-headers":
			_ = write(u.forkHdrs())
		case "addr-flood":
			addr := wire.NewMsgAddr()
			for i := 0; i < 1+a.N%1000; i++ {
				_ = addr.AddAddress(wire.NewNetAddressIPPort(net.IPv4(10, byte(a.K), byte(i>>8), byte(i)), 8333, 0))
			}
			_ = write(addr)
		case "garbage":
			switch a.N % 6 {
			case 0: // wrong checksum
				raw(frame("inv", []byte{1, 1, 0, 0, 0, 2, 3, 4, 5, 6, 7, 8, 9, 0, 1, 2, 3, 4, 5, 6, 7, 8, 9, 0, 1, 2, 3, 4, 5, 6, 7, 8, 9, 0, 1, 2, 3}, false, mainMagic))
			case 1: // wrong network magic
				raw(frame("ping", []byte{1, 2, 3, 4, 5, 6, 7, 8}, true, 0xdeadbeef))
			case 2: // payload length far beyond any limit
				var hdr [24]byte
				binary.LittleEndian.PutUint32(hdr[0:4], mainMagic)
				copy(hdr[4:16], "block")
				binary.LittleEndian.PutUint32(hdr[16:20], 0xfffffff0)
				raw(hdr[:])
			case 3: // random bytes
				b := make([]byte, 300)
				for i := range b {
					b[i] = byte(i*31 + a.K)
				}
				raw(b)
			case 4: // half a message, then the connection ends
				f := frame("tx", bytes.Repeat([]byte{0x01}, 200), true, mainMagic)
				raw(f[:60])
				time.Sleep(30 * time.Millisecond)
				_ = c.Close()
				return
			case 5: // a valid frame whose payload does not parse
				raw(frame("headers", []byte{0xff, 0xff, 0xff, 0xff, 0xff, 0xff, 0xff, 0xff, 0xff}, true, mainMagic))
			}
		case "stop-reading":
			u.mu.Lock()
			u.noRead = true
			u.mu.Unlock()
		case "close":
			_ = c.Close()
			return
		}
		time.Sleep(10 * time.Millisecond)
	}
}

func c12lRun(plan *C12LPlan) (res c12lResult) {
	res.Flags = map[string]bool{}
	flags := res.Flags
	fail := func(key, what string) c12lResult {
		res.Key, res.What = key, what
		return res
	}
	fetch := newStubFetcher()
	tree := verifkit.NewTree(genesisHeader())
	// transactions: trusted-only ones go into mined blocks, untrusted-only ones are offered by peers
	var specs []TxSpec
	for k := 0; k < plan.Mine; k++ {
		specs = append(specs, TxSpec{Ins: []TxInSpec{{Fund: 100 + k}}, Rel: k % 3})
	}
	nOwn := 3 * len(plan.Peers)
	for k := 0; k < nOwn; k++ {
		sp := TxSpec{Ins: []TxInSpec{{Fund: 300 + k}}, Rel: k % 6}
		if k%2 == 1 {
			// a double spend of a transaction the trusted peer announces and later mines
			sp.Ins = []TxInSpec{{Fund: 100 + k%plan.Mine}}
		}
		specs = append(specs, sp)
	}
	all := txUniverse(specs, fetch)
	minedTxs, ownTxs := all[:plan.Mine], all[plan.Mine:]
	prev := tree.Genesis
	for b := 1; b <= plan.Blocks; b++ {
		prev = tree.Add(prev, verifkit.ChainName("a", b), nil)
	}
	initialBest := prev
	var toMine []*verifkit.TBlock
	for k := 0; k < plan.Mine; k++ {
		prev = tree.Add(prev, verifkit.ChainName("a", plan.Blocks+1+k), []*wire.MsgTx{minedTxs[k]})
		toMine = append(toMine, prev)
	}
	finalBest := prev
	// a fork the untrusted peers advertise: longer than anything the trusted peer will have
	forkPrev := initialBest
	var forkBlocks []*verifkit.TBlock
	for k := 0; k < plan.Mine+3; k++ {
		forkPrev = tree.Add(forkPrev, fmt.Sprintf("f%d", plan.Blocks+1+k), nil)
		forkBlocks = append(forkBlocks, forkPrev)
	}
	// an alien chain (other genesis)
	var alien []*wire.BlockHeader
	{
		g := genesisHeader()
		g.Nonce ^= 0x5a5a5a5a
		at := verifkit.NewTree(g)
		p := at.Genesis
		for k := 1; k <= 6; k++ {
			p = at.Add(p, fmt.Sprintf("x%d", k), nil)
			h := p.Header
			alien = append(alien, &h)
		}
	}

	fp := newFakePeer(tree, initialBest)
	lp, err := newLivePeer(fp)
	if err != nil {
		return fail("C12/harness/listen", err.Error())
	}
	defer lp.shutdown()
	// the trusted peer announces the transactions it will mine, one every 40 ms once in sync
	lp.txStream = append([]*wire.MsgTx{}, minedTxs...)
	lp.streamOn = true

	store := verifkit.NewMemStore(true)
	ctx := quietCtx()
	var uns []*liveUntrusted
	peerRepo := internalStorage.NewPeerRepository(store)
	for i, ps := range plan.Peers {
		ln, err := net.Listen("tcp", "127.0.0.1:0")
		if err != nil {
			return fail("C12/harness/listen", err.Error())
		}
		u := &liveUntrusted{ln: ln, spec: ps, fp: newFakePeer(tree, initialBest), alien: alien, done: make(chan struct{})}
		u.own = ownTxs[3*i : 3*i+3]
		u.badBlock = func(k int) wire.Message {
			// the header of a block the trusted peer is about to announce, with another body
			b := toMine[k%len(toMine)]
			return b.MsgWithTxs([]*wire.MsgTx{b.Txs[0], ownTxs[k%len(ownTxs)]})
		}
		u.forkHdrs = func() *wire.MsgHeaders {
			hm := wire.NewMsgHeaders()
			for _, fb := range forkBlocks {
				h := fb.Header
				_ = hm.AddBlockHeader(&h)
			}
			return hm
		}
		uns = append(uns, u)
		go u.acceptLoop()
		defer ln.Close()
		defer u.closeConn()
		defer u.finish()
		addr := ln.Addr().String()
		if _, err := peerRepo.Add(ctx, addr); err != nil {
			return fail("C12/harness/peers", err.Error())
		}
		peerRepo.UpdateScore(ctx, addr, 5)
		flags["peer-chain:"+ps.Chain] = true
		for _, a := range ps.Acts {
			flags["act:"+a.Op] = true
		}
	}
	if err := peerRepo.Save(ctx); err != nil {
		return fail("C12/harness/peers", err.Error())
	}

	cfg := stepConfig()
	cfg.NodeAddress = lp.ln.Addr().String()
	cfg.RetryDelay = 20
	cfg.SafeTxDelay = 100
	cfg.UntrustedCount = len(plan.Peers)
	cfg.StartHash = tree.ByName["a1"].Hash
	node := NewNode(cfg, store, fetch, fetch)
	h := &liveHandler{}
	node.RegisterHandler(h)
	_ = node.SubscribePushDatas(ctx, subUniverse)
	for _, u := range uns {
		addr := u.ln.Addr().String()
		u.queueLen = func() int {
			node.untrustedLock.Lock()
			defer node.untrustedLock.Unlock()
			for _, un := range node.untrustedNodes {
				if un.address == addr {
					return len(un.outgoing.Channel)
				}
			}
			return -1
		}
	}
	runDone := make(chan error, 1)
	go func() { runDone <- node.Run(ctx) }()
	stopped := false
	stop := func() bool {
		if stopped {
			return true
		}
		stopped = true
		ret := make(chan struct{})
		go func() { _ = node.Stop(ctx); close(ret) }()
		select {
		case <-ret:
		case <-time.After(20 * time.Second):
			return false
		}
		select {
		case <-runDone:
		case <-time.After(5 * time.Second):
			return false
		}
		return true
	}
	defer stop()

	waitFor := func(d time.Duration, cond func() bool) bool {
		deadline := time.Now().Add(d)
		for time.Now().Before(deadline) {
			if cond() {
				return true
			}
			time.Sleep(15 * time.Millisecond)
		}
		return cond()
	}
	insync := func() bool {
		for _, e := range h.snapshot() {
			if e.Kind == "insync" {
				return true
			}
		}
		return false
	}
	if !waitFor(10*time.Second, func() bool { return insync() && node.blocks.LastHeight() == initialBest.Height }) {
		return fail("C12/harness/sync", "node did not sync with the trusted peer before any untrusted peer was contacted")
	}
	// untrusted connections are dialled by the node's own loop once it is in sync
	connected := func() int {
		n := 0
		for _, u := range uns {
			u.mu.Lock()
			if u.conns > 0 {
				n++
			}
			u.mu.Unlock()
		}
		return n
	}
	waitFor(4*time.Second, func() bool { return connected() == len(uns) })
	if connected() == 0 {
		flags["no-untrusted-connection"] = true
	}
	// the trusted peer mines while the untrusted scripts run
	mine := func(b *verifkit.TBlock) {
		lp.mu.Lock()
		lp.fp.setBest(b)
		out := lp.fp.toNode
		lp.fp.toNode = nil
		var c net.Conn
		if len(lp.conns) > 0 {
			c = lp.conns[len(lp.conns)-1]
		}
		lp.mu.Unlock()
		if c != nil {
			lp.write(c, out)
		}
	}
	if plan.MineDelayMs > 0 {
		time.Sleep(time.Duration(plan.MineDelayMs) * time.Millisecond)
	}
	for _, b := range toMine {
		time.Sleep(120 * time.Millisecond)
		mine(b)
	}
	// let the scripts finish
	for _, u := range uns {
		select {
		case <-u.done:
		case <-time.After(12 * time.Second):
			flags["script-timeout"] = true
		}
	}
	for _, u := range uns {
		u.mu.Lock()
		if u.sawGetHeaders {
			flags["untrusted-handshake-reached"] = true
		}
		if u.noRead {
			flags["peer-stopped-reading"] = true
		}
		if os.Getenv("VERIF_C12L_DEBUG") != "" {
			flags["dbg: last act "+u.lastAct] = true
		}
		u.mu.Unlock()
	}
	if os.Getenv("VERIF_C12L_DEBUG") != "" {
		node.untrustedLock.Lock()
		for _, un := range node.untrustedNodes {
			flags[fmt.Sprintf("dbg: queue %d tracked %d active %v", len(un.outgoing.Channel), un.txTracker.VerifTracked(), un.IsActive())] = true
		}
		node.untrustedLock.Unlock()
	}
	// (1) the node still follows the trusted peer
	if !waitFor(25*time.Second, func() bool {
		return node.blocks.LastHeight() == finalBest.Height && *node.blocks.LastHash() == finalBest.Hash
	}) {
		return fail("C12/trusted-chain-not-followed", fmt.Sprintf("the trusted peer's best chain is at height %d, the node stayed at height %d for 25 s after the untrusted peers finished (peers: %s)", finalBest.Height, node.blocks.LastHeight(), describeC12L(plan)))
	}
	// (2) the chain is the trusted peer's chain
	for hgt, b := range finalBest.Path() {
		got, err := node.blocks.Hash(ctx, hgt)
		if err != nil || *got != b.Hash {
			return fail("C12/chain-changed", fmt.Sprintf("height %d of the node's chain is not the trusted peer's block", hgt))
		}
	}
	time.Sleep(250 * time.Millisecond) // more than the safe delay: a wrong safe report would show now
	// (3) nothing an untrusted peer alone supplied is confirmed or safe; unverified peers are not heard
	ownBy := map[bitcoin.Hash32]int{}
	for i, u := range uns {
		for _, tx := range u.own {
			ownBy[*tx.TxHash()] = i
		}
	}
	for _, e := range h.snapshot() {
		if e.Kind != "tx" && e.Kind != "update" {
			continue
		}
		i, untrustedOnly := ownBy[e.TxID]
		if !untrustedOnly {
			continue
		}
		if plan.Peers[i].Chain != "same" {
			return fail("C12/unverified-peer-heard", fmt.Sprintf("a transaction that only untrusted peer %d (%s chain, never verified) supplied was delivered to handlers", i, plan.Peers[i].Chain))
		}
		if e.State.Safe {
			return fail("C12/untrusted-safe", "a transaction only an untrusted peer supplied was reported safe")
		}
		if e.State.MerkleProof != nil {
			return fail("C12/untrusted-confirmed", "a transaction only an untrusted peer supplied was reported confirmed")
		}
		flags["untrusted-tx-delivered-unsafe"] = true
	}
	if !stop() {
		flags["stop-hang"] = true
	}
	return res
}

func describeC12L(p *C12LPlan) string {
	var parts []string
	for _, ps := range p.Peers {
		var ops []string
		for _, a := range ps.Acts {
			ops = append(ops, a.Op)
		}
		parts = append(parts, ps.Chain+"["+strings.Join(ops, ",")+"]")
	}
	return strings.Join(parts, " ")
}

func genC12L(t *rapid.T) *C12LPlan {
	// the node's header request to an untrusted peer starts 6 blocks below its tip: on shorter chains it
	// names the tip itself and an honest peer has nothing to answer, so most plans use longer chains
	p := &C12LPlan{Blocks: rapid.SampledFrom([]int{3, 7, 8, 9, 10, 12, 14}).Draw(t, "blocks"), Mine: rapid.IntRange(2, 5).Draw(t, "mine")}
	if rapid.IntRange(0, 5).Draw(t, "profile") == 0 {
		p.Blocks = rapid.IntRange(8, 14).Draw(t, "pblocks")
		// back-pressure profile: one peer announces txids and never delivers them; a second one
		// announces the same ones, stops reading, makes the node queue many requests for it, and shows
		// activity again after the request window has passed; the trusted peer mines afterwards
		shared := rapid.IntRange(1, 1999).Draw(t, "shared")
		a := C12LPeer{Chain: "same", Acts: []C12LAct{{Op: "inv-shared", N: shared}, {Op: "sleep", N: 150}, {Op: "wait-window"}, {Op: "sleep", N: 199}}}
		b := C12LPeer{Chain: "same", Acts: []C12LAct{{Op: "sleep", N: 100}, {Op: "inv-shared", N: shared}}}
		if rapid.Bool().Draw(t, "stopfirst") {
			b.Acts = append(b.Acts, C12LAct{Op: "stop-reading"})
		}
		for k, c := 0, rapid.IntRange(0, 16).Draw(t, "big"); k < c; k++ {
			b.Acts = append(b.Acts, C12LAct{Op: "inv-flood", N: 49999 - k, K: 0})
		}
		fill := C12LAct{Op: "small-invs", N: rapid.IntRange(50, 399).Draw(t, "small"), K: 1}
		if rapid.Bool().Draw(t, "fill") {
			fill = C12LAct{Op: "fill-queue", N: rapid.IntRange(0, 39).Draw(t, "target"), K: 2}
		}
		b.Acts = append(b.Acts, C12LAct{Op: "stop-reading"}, fill,
			C12LAct{Op: "wait-window"}, C12LAct{Op: "ping", N: 1}, C12LAct{Op: "ping", N: 2}, C12LAct{Op: "sleep", N: 199})
		p.Peers = []C12LPeer{a, b}
		p.MineDelayMs = rapid.SampledFrom([]int{0, 3000, 4500}).Draw(t, "minedelay")
		return p
	}
	for i, n := 0, rapid.IntRange(1, 3).Draw(t, "peers"); i < n; i++ {
		ps := C12LPeer{Chain: rapid.SampledFrom([]string{"same", "same", "same", "alien", "mute"}).Draw(t, "chain")}
		for k, c := 0, rapid.IntRange(1, 7).Draw(t, "acts"); k < c; k++ {
			a := C12LAct{Op: rapid.SampledFrom([]string{"inv-flood", "inv-flood", "offer-tx", "offer-tx", "push-tx", "push-tx", "bad-block", "bad-block", "fork-headers", "addr-flood", "garbage", "garbage", "stop-reading", "sleep", "close"}).Draw(t, "op"),
				N: rapid.IntRange(0, 60000).Draw(t, "n"), K: rapid.IntRange(0, 9).Draw(t, "k")}
			ps.Acts = append(ps.Acts, a)
		}
		p.Peers = append(p.Peers, ps)
	}
	return p
}

const c12lRule = "live plans: real Run and real UntrustedNode.Run over loopback sockets; 1-3 scripted untrusted peers per plan (on the node's chain, on an alien chain, or never answering the header request) run generated scripts of inventory floods (up to 6 x 50 000 items), offered and pushed transactions only they know (half of them double spends of transactions the trusted peer announces and then mines), blocks carrying the header of a block the trusted peer is about to announce with a forged body, headers of a longer fork, address floods, garbage frames (bad checksum, bad magic, absurd length, random bytes, half a message then close, unparsable payload), stopping to read, closing; one plan in six is a two-peer back-pressure profile (announce shared txids and never deliver, stop reading, make the node queue hundreds of requests, show activity again after the 3 s request window); meanwhile the trusted peer mines 2-5 blocks; each batch runs in a child process; oracle: the node process survives, reaches the trusted peer's tip within 25 s after the scripts, holds exactly the trusted chain, delivers nothing that only an unverified peer supplied, and reports nothing only an untrusted peer supplied as safe or confirmed; non-trivial = an untrusted peer got as far as the header request; distinct by plan hash"

func c12lNontrivial(f map[string]bool) bool { return f["untrusted-handshake-reached"] }

// TestC12LiveChild runs a batch of plans given by the parent (never selected by the driver).
func TestC12LiveChild(t *testing.T) {
	in, out := os.Getenv("VERIF_C12L_IN"), os.Getenv("VERIF_C12L_OUT")
	if in == "" || out == "" {
		t.Skip("child mode only")
	}
	raw, err := os.ReadFile(in)
	if err != nil {
		t.Fatal(err)
	}
	var plans []*C12LPlan
	if err := json.Unmarshal(raw, &plans); err != nil {
		t.Fatal(err)
	}
	results := make([]c12lResult, len(plans))
	var wg sync.WaitGroup
	for i := range plans {
		wg.Add(1)
		go func(i int) {
			defer wg.Done()
			results[i] = c12lRun(plans[i])
		}(i)
	}
	wg.Wait()
	b, _ := json.Marshal(results)
	if err := os.WriteFile(out, b, 0o644); err != nil {
		t.Fatal(err)
	}
}

// c12lChild runs plans in a child copy of the test binary. died=true with the tail of its stderr
// if the child did not produce results.
func c12lChild(plans []*C12LPlan) (results []c12lResult, died bool, stderrTail string) {
	dir, err := os.MkdirTemp("", "verif-c12l-*")
	if err != nil {
		return nil, true, err.Error()
	}
	defer os.RemoveAll(dir)
	in, out := dir+"/in.json", dir+"/out.json"
	b, _ := json.Marshal(plans)
	_ = os.WriteFile(in, b, 0o644)
	ctx, cancel := context.WithTimeout(context.Background(), 240*time.Second)
	defer cancel()
	cmd := exec.CommandContext(ctx, os.Args[0], "-test.run", "^TestC12LiveChild$", "-test.count=1", "-test.timeout=230s")
	cmd.Env = append(os.Environ(), "VERIF_C12L_IN="+in, "VERIF_C12L_OUT="+out, "VERIF_OUT=")
	var errBuf bytes.Buffer
	cmd.Stderr = &errBuf
	cmd.Stdout = &errBuf
	if os.Getenv("VERIF_C12L_DEBUG") != "" {
		cmd.Stderr = os.Stderr
	}
	_ = cmd.Run()
	raw, err := os.ReadFile(out)
	if err == nil && json.Unmarshal(raw, &results) == nil && len(results) == len(plans) {
		return results, false, ""
	}
	s := errBuf.String()
	if i := strings.Index(s, "panic:"); i >= 0 {
		s = s[i:]
	} else if i := strings.Index(s, "fatal error:"); i >= 0 {
		s = s[i:]
	}
	if len(s) > 1500 {
		s = s[:1500]
	}
	return nil, true, s
}

func TestC12Live(t *testing.T) {
	rep := verifkit.NewReport("C12", "TestC12Live", c12lRule)
	defer rep.Finish(t)
	judge := func(p *C12LPlan, r c12lResult) bool {
		rep.Case(verifkit.Hash(p), c12lNontrivial(r.Flags), flagList(r.Flags)...)
		if c12lNontrivial(r.Flags) && rep.WantSample() {
			rep.Sample(p)
		}
		if r.Key == "" {
			return true
		}
		if strings.HasPrefix(r.Key, "C12/harness/") {
			rep.Label("harness-problem:"+r.Key, 1) // the plan did not get going: no verdict
			return true
		}
		if verifkit.Known(r.Key) {
			rep.Exclude(r.Key)
			return true
		}
		rep.AddViolation(r.Key, r.What, p)
		t.Errorf("%s: %s", r.Key, r.What)
		return false
	}
	single := func(p *C12LPlan) c12lResult {
		rs, died, tail := c12lChild([]*C12LPlan{p})
		if died && (strings.Contains(tail, "test timed out") || (!strings.Contains(tail, "panic:") && !strings.Contains(tail, "fatal error:"))) {
			// no results and no crash report: the child ran out of time or was killed from outside
			return c12lResult{Key: "C12/harness/child-ended", What: tail, Flags: map[string]bool{}}
		}
		if died {
			return c12lResult{Key: "C12/process-died", What: "the node process died while untrusted peers were acting (" + describeC12L(p) + "): " + tail, Flags: map[string]bool{"untrusted-handshake-reached": true}}
		}
		return rs[0]
	}
	if f := verifkit.ReplayFile("TestC12Live"); f != "" {
		var p C12LPlan
		if _, _, err := verifkit.LoadReplay(f, &p); err != nil {
			t.Fatal(err)
		}
		judge(&p, single(&p))
		return
	}
	for _, f := range verifkit.RegressionFiles("TestC12Live") {
		var p C12LPlan
		if _, _, err := verifkit.LoadReplay(f, &p); err == nil {
			judge(&p, single(&p))
		}
	}
	const batch = 8
	var pending []*C12LPlan
	flush := func() bool {
		if len(pending) == 0 {
			return true
		}
		plans := pending
		pending = nil
		rs, died, _ := c12lChild(plans)
		ok := true
		if died {
			// attribute: run each plan on its own
			rep.Label("batch-died", 1)
			reproduced := false
			for _, p := range plans {
				r := single(p)
				if r.Key == "C12/process-died" {
					reproduced = true
				}
				if !judge(p, r) {
					ok = false
				}
			}
			if !reproduced {
				rep.Label("batch-death-not-reproduced", 1)
			}
			return ok
		}
		for i, p := range plans {
			r := rs[i]
			if r.Key != "" && !strings.HasPrefix(r.Key, "C12/harness/") {
				// confirm on its own before it counts (timing-dependent verdicts under load)
				r2 := single(p)
				if r2.Key == "" {
					rep.Label("verdict-not-reproduced:"+r.Key, 1)
					r = r2
				} else {
					r = r2
				}
			}
			if strings.HasPrefix(r.Key, "C12/harness/") {
				rep.Label("harness-problem:"+r.Key, 1)
				r.Key = ""
			}
			if !judge(p, r) {
				ok = false
			}
		}
		return ok
	}
	failed := false
	rapid.Check(t, func(rt *rapid.T) {
		p := genC12L(rt)
		if failed {
			return // a violation was recorded with its plan: no more batches (plans cannot be re-shrunk)
		}
		pending = append(pending, p)
		if len(pending) >= batch && !flush() {
			failed = true
		}
	})
	if !failed {
		flush()
	}
}
