//go:build verif

package spynode

import (
	"context"

	"github.com/tokenized/logger"
	"github.com/tokenized/pkg/bitcoin"
	"github.com/tokenized/spynode/internal/platform/config"
)

func quietCtx() context.Context { return logger.ContextWithNoLogger(context.Background()) }

func stepConfig() config.Config {
	return config.Config{Net: bitcoin.MainNet, IsTest: true, NodeAddress: "127.0.0.1:1", UserAgent: "/verif/",
		SafeTxDelay: 2000, MaxRetries: 1000, RetryDelay: 10}
}
