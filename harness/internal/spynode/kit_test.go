//go:build verif

package spynode

import (
	"context"
	"runtime/debug"
	"strings"

	"github.com/tokenized/logger"
	"github.com/tokenized/pkg/bitcoin"
	"github.com/tokenized/pkg/wire"
	"github.com/tokenized/spynode/internal/handlers"
	"github.com/tokenized/spynode/internal/platform/config"
)

func quietCtx() context.Context { return logger.ContextWithNoLogger(context.Background()) }

func stepConfig() config.Config {
	return config.Config{Net: bitcoin.MainNet, IsTest: true, NodeAddress: "127.0.0.1:1", UserAgent: "/verif/",
		SafeTxDelay: 2000, MaxRetries: 1000, RetryDelay: 10}
}

// shortStack returns the frames of the current (panicking) stack that belong to spynode or its
// dependencies, without the harness and runtime noise.
func shortStack() string {
	var out []string
	for _, l := range strings.Split(string(debug.Stack()), "\n") {
		if strings.Contains(l, ".go:") && !strings.Contains(l, "zz_verif_") && !strings.Contains(l, "/runtime/") && !strings.Contains(l, "/testing/") && !strings.Contains(l, "pgregory.net") {
			out = append(out, strings.TrimSpace(l))
		}
		if len(out) >= 8 {
			break
		}
	}
	return strings.Join(out, " <- ")
}

func handlersTxData(tx *wire.MsgTx, trusted, safe bool) handlers.TxData {
	return handlers.TxData{Msg: tx, Trusted: trusted, Safe: safe, ConfirmedHeight: -1}
}
