//go:build verif

package spynode

// C08 — Subscription filter matches exactly subscribed push data and contract actions.

import (
	"crypto/sha256"
	"encoding/hex"
	"fmt"
	"testing"

	"github.com/tokenized/pkg/bitcoin"
	"github.com/tokenized/pkg/wire"
	"github.com/tokenized/specification/dist/golang/actions"
	"github.com/tokenized/specification/dist/golang/protocol"
	"github.com/tokenized/spynode/internal/verifkit"

	"golang.org/x/crypto/ripemd160"
	"pgregory.net/rapid"
)

func refHash160(b []byte) [20]byte {
	s := sha256.Sum256(b)
	r := ripemd160.New()
	r.Write(s[:])
	var out [20]byte
	copy(out[:], r.Sum(nil))
	return out
}

// refPushes is the harness's own script parser: the complete data pushes before the first
// malformation. Small-integer opcodes and OP_0 are not data pushes here; the value universe is
// chosen so that they can never match either way.
func refPushes(script []byte) [][]byte {
	var out [][]byte
	i := 0
	for i < len(script) {
		op := script[i]
		i++
		var n int
		switch {
		case op >= 0x01 && op <= 0x4b:
			n = int(op)
		case op == 0x4c:
			if i+1 > len(script) {
				return out
			}
			n = int(script[i])
			i++
		case op == 0x4d:
			if i+2 > len(script) {
				return out
			}
			n = int(script[i]) | int(script[i+1])<<8
			i += 2
		case op == 0x4e:
			if i+4 > len(script) {
				return out
			}
			n = int(script[i]) | int(script[i+1])<<8 | int(script[i+2])<<16 | int(script[i+3])<<24
			i += 4
		default:
			continue // not a data push
		}
		if n < 0 || i+n > len(script) {
			return out // truncated push: malformed from here on
		}
		if n > 0 {
			out = append(out, script[i:i+n])
		}
		i += n
	}
	return out
}

func refKey(p []byte) [20]byte {
	if len(p) == 20 {
		var k [20]byte
		copy(k[:], p)
		return k
	}
	return refHash160(p)
}

// C08Sub is one subscribe/unsubscribe call.
type C08Sub struct {
	Unsub  bool `json:"unsub"`
	Value  int  `json:"value"`  // index into c08Universe (subUniverse plus long raw values)
	Hashed bool `json:"hashed"` // give the 20-byte hash instead of the raw data
}

// C08Scenario is a subscription history plus transactions given as raw scripts.
type C08Scenario struct {
	Subs      []C08Sub `json:"subs"`
	Contracts int      `json:"contracts"` // 0 never, 1 subscribed, 2 subscribed then unsubscribed
	Outputs   []string `json:"outputs"`   // hex locking scripts
	Inputs    []string `json:"inputs"`    // hex unlocking scripts
	Action    string   `json:"action"`    // "", formation, creation, transfer: appended as an extra output
	// ActionForm: 0 the serializer's form (OP_FALSE OP_RETURN ...) as the last output; 1 the bare form
	// (OP_RETURN ... without the leading OP_FALSE, which the protocol library also decodes); 2 the
	// serializer's form as the first output
	ActionForm int `json:"action_form,omitempty"`
}

func c08Run(sc *C08Scenario) (*nodeViolation, map[string]bool) {
	flags := map[string]bool{}
	ctx := quietCtx()
	node := NewNode(stepConfig(), verifkit.NewMemStore(true), nil, nil)
	model := map[[20]byte]int{}
	for _, s := range sc.Subs {
		v := c08Universe[s.Value%len(c08Universe)]
		key := refKey(v)
		arg := v
		if s.Hashed {
			arg = key[:]
		}
		if s.Unsub {
			_ = node.UnsubscribePushDatas(ctx, [][]byte{arg})
			if model[key] > 0 {
				model[key]--
			}
			flags["unsubscribe"] = true
		} else {
			_ = node.SubscribePushDatas(ctx, [][]byte{arg})
			model[key]++
		}
	}
	// white-box: the node's subscription list must be exactly the model multiset
	node.pushDataLock.Lock()
	have := map[[20]byte]int{}
	for _, h := range node.pushDataHashes {
		var k [20]byte
		copy(k[:], h[:])
		have[k]++
	}
	node.pushDataLock.Unlock()
	for k, n := range model {
		if have[k] != n {
			return &nodeViolation{"C08/subscriptions/multiset", fmt.Sprintf("after the subscription history the node holds %d occurrences of a value the model holds %d times", have[k], n)}, flags
		}
	}
	for k, n := range have {
		if model[k] != n {
			return &nodeViolation{"C08/subscriptions/multiset", fmt.Sprintf("the node holds %d occurrences of value %x which the model holds %d times", n, k[:4], model[k])}, flags
		}
	}
	contractsOn := false
	switch sc.Contracts {
	case 1:
		_ = node.SubscribeContracts(ctx)
		contractsOn = true
	case 2:
		_ = node.SubscribeContracts(ctx)
		_ = node.UnsubscribeContracts(ctx)
	}
	tx := wire.NewMsgTx(1)
	want := false
	check := func(script []byte) {
		pushes := refPushes(script)
		for _, p := range pushes {
			if model[refKey(p)] > 0 {
				want = true
				flags["match"] = true
			}
		}
	}
	for i, h := range sc.Inputs {
		b, _ := hex.DecodeString(h)
		var prev bitcoin.Hash32
		prev[0] = byte(i + 1)
		tx.AddTxIn(wire.NewTxIn(wire.NewOutPoint(&prev, 0), b))
		check(b)
	}
	for _, h := range sc.Outputs {
		b, _ := hex.DecodeString(h)
		tx.AddTxOut(wire.NewTxOut(1, b))
		check(b)
	}
	if sc.Action != "" {
		var a actions.Action
		switch sc.Action {
		case "formation":
			a = &actions.ContractFormation{ContractName: "verif"}
		case "creation":
			a = &actions.InstrumentCreation{InstrumentCode: make([]byte, 20), InstrumentType: "COU"}
		default:
			a = &actions.Transfer{}
		}
		if script, err := protocol.Serialize(a, true); err == nil {
			carries := sc.Action == "formation" || sc.Action == "creation"
			switch sc.ActionForm {
			case 1:
				if len(script) > 1 && script[0] == 0x00 {
					script = script[1:]
					flags["action-bare-op-return"] = true
					// "carries an action" is what the protocol library decodes from the output
					got, derr := protocol.Deserialize(script, true)
					carries = false
					if derr == nil {
						switch got.(type) {
						case *actions.ContractFormation, *actions.InstrumentCreation:
							carries = true
						}
					}
				}
				tx.AddTxOut(wire.NewTxOut(0, script))
			case 2:
				tx.TxOut = append([]*wire.TxOut{wire.NewTxOut(0, script)}, tx.TxOut...)
				flags["action-first-output"] = true
			default:
				tx.AddTxOut(wire.NewTxOut(0, script))
			}
			check(script)
			if contractsOn && carries {
				want = true
				flags["contract-match"] = true
			}
			flags["action:"+sc.Action] = true
		}
	}
	var got bool
	panicked := ""
	func() {
		defer func() {
			if r := recover(); r != nil {
				panicked = fmt.Sprintf("%v\n%s", r, shortStack())
			}
		}()
		got = node.IsRelevant(ctx, tx)
	}()
	if panicked != "" {
		return &nodeViolation{"C08/panic", "the filter panicked: " + panicked}, flags
	}
	if got != want {
		key := "C08/filter/missed"
		if got {
			key = "C08/filter/false-match"
		}
		return &nodeViolation{key, fmt.Sprintf("IsRelevant=%v, reference filter says %v", got, want)}, flags
	}
	return nil, flags
}

// c08Universe is subUniverse plus raw values at the push-size boundaries (PUSHDATA1/2/4, the
// 520-byte script element size, beyond 64 KiB).
var c08Universe = func() [][]byte {
	out := append([][]byte{}, subUniverse...)
	for k, n := range []int{76, 255, 256, 520, 521, 3000, 66000} {
		v := make([]byte, n)
		for i := range v {
			v[i] = byte(i*7 + k*13 + 1)
		}
		out = append(out, v)
	}
	return out
}()

// c08Push encodes a data push with the opcode class asked for (0 shortest, 1 PUSHDATA1, 2
// PUSHDATA2, 3 PUSHDATA4), falling back to the next class that can express the length.
func c08Push(d []byte, class int) []byte {
	n := len(d)
	switch {
	case class <= 0 && n <= 75:
		return append([]byte{byte(n)}, d...)
	case class <= 1 && n <= 0xff:
		return append([]byte{0x4c, byte(n)}, d...)
	case class <= 2 && n <= 0xffff:
		return append([]byte{0x4d, byte(n), byte(n >> 8)}, d...)
	}
	return append([]byte{0x4e, byte(n), byte(n >> 8), byte(n >> 16), byte(n >> 24)}, d...)
}

func genC08Script(t *rapid.T, label string, flags map[string]bool) []byte {
	var s []byte
	n := rapid.IntRange(0, 6).Draw(t, label+"-n")
	for i := 0; i < n; i++ {
		// data to push
		data := func() []byte {
			switch rapid.IntRange(0, 7).Draw(t, label+"-dk") {
			case 7:
				// degenerate 20-byte values nobody subscribed to
				return rapid.SampledFrom([][]byte{make([]byte, 20), {0xff, 0xff, 0xff, 0xff, 0xff, 0xff, 0xff, 0xff, 0xff, 0xff, 0xff, 0xff, 0xff, 0xff, 0xff, 0xff, 0xff, 0xff, 0xff, 0xff}}).Draw(t, label+"-deg")
			case 0, 1:
				flags["universe-element"] = true
				return c08Universe[rapid.IntRange(0, len(c08Universe)-1).Draw(t, label+"-u")]
			case 2:
				flags["universe-element"] = true
				k := refHash160(c08Universe[rapid.IntRange(3, len(c08Universe)-1).Draw(t, label+"-uh")])
				return k[:]
			case 3:
				v := append([]byte{}, c08Universe[rapid.IntRange(0, len(c08Universe)-1).Draw(t, label+"-nm")]...)
				v[rapid.IntRange(0, len(v)-1).Draw(t, label+"-flip")] ^= 0x01
				return v
			case 4:
				v := c08Universe[rapid.IntRange(0, 2).Draw(t, label+"-tr")]
				return v[:19]
			default:
				return rapid.SliceOfN(rapid.Byte(), 1, 80).Draw(t, label+"-rnd")
			}
		}
		switch rapid.IntRange(0, 9).Draw(t, label+"-ek") {
		case 0, 1, 2:
			d := data()
			if len(d) > 75 {
				flags["long-push"] = true
			}
			s = append(s, c08Push(d, 0)...)
		case 3:
			s = append(s, c08Push(data(), 1)...)
		case 4:
			s = append(s, c08Push(data(), 2)...)
		case 5:
			s = append(s, c08Push(data(), 3)...)
		case 6:
			// non-push opcode
			op := rapid.SampledFrom([]byte{0x61, 0x6a, 0x76, 0xa9, 0x88, 0xac, 0x87, 0xba, 0xff, 0x50, 0x62}).Draw(t, label+"-op")
			s = append(s, op)
			flags["non-push-opcode"] = true
		case 7:
			s = append(s, rapid.SampledFrom([]byte{0x00, 0x4f, 0x51, 0x52, 0x60}).Draw(t, label+"-small"))
		case 8:
			// lying length: claims more than what follows (possibly swallowing later pushes)
			d := data()
			claim := len(d) + rapid.IntRange(1, 300).Draw(t, label+"-lie")
			kind := rapid.IntRange(0, 2).Draw(t, label+"-liekind")
			if claim > 0xff && kind == 0 {
				kind = 1
			}
			if claim > 0xffff {
				kind = 2
			}
			switch kind {
			case 0:
				s = append(s, 0x4c, byte(claim))
			case 1:
				s = append(s, 0x4d, byte(claim), byte(claim>>8))
			default:
				s = append(s, 0x4e, byte(claim), byte(claim>>8), byte(claim>>16), 0)
			}
			s = append(s, d...)
			flags["malformed"] = true
		case 9:
			// truncated tail: drop some bytes off the end of what we have
			if len(s) > 1 {
				s = s[:len(s)-rapid.IntRange(1, len(s)-1).Draw(t, label+"-cut")]
				flags["malformed"] = true
			}
		}
	}
	return s
}

func genC08(t *rapid.T) (*C08Scenario, map[string]bool) {
	gf := map[string]bool{}
	sc := &C08Scenario{Contracts: rapid.IntRange(0, 2).Draw(t, "contracts"),
		Action: rapid.SampledFrom([]string{"", "", "", "formation", "creation", "transfer"}).Draw(t, "action")}
	for i, n := 0, rapid.IntRange(0, 8).Draw(t, "nsubs"); i < n; i++ {
		sc.Subs = append(sc.Subs, C08Sub{Unsub: rapid.IntRange(0, 2).Draw(t, "unsub") == 0, Value: rapid.IntRange(0, len(c08Universe)-1).Draw(t, "value"), Hashed: rapid.Bool().Draw(t, "hashed")})
	}
	for i, n := 0, rapid.IntRange(1, 3).Draw(t, "nin"); i < n; i++ {
		sc.Inputs = append(sc.Inputs, hex.EncodeToString(genC08Script(t, "in", gf)))
	}
	for i, n := 0, rapid.IntRange(0, 3).Draw(t, "nout"); i < n; i++ {
		sc.Outputs = append(sc.Outputs, hex.EncodeToString(genC08Script(t, "out", gf)))
	}
	if sc.Action != "" {
		sc.ActionForm = rapid.SampledFrom([]int{0, 0, 1, 2}).Draw(t, "actionform")
	}
	return sc, gf
}

const c08Rule = "transactions whose input/output scripts are built from a grammar of direct pushes, PUSHDATA1/2/4 (honest and lying lengths), non-push opcodes, small-integer opcodes and truncated tails, carrying subscribed values (20-byte and raw, raw lengths 33..66000 incl. the 75/255/520/65535 push-size boundaries), their HASH160s, near misses and random data; subscription histories of subscribe/unsubscribe in raw or hashed form with repeats; contract subscription on/off with formation/creation/other actions in the serializer's form (last or first output) or in the bare OP_RETURN form the protocol library also decodes; oracle: independent push parser + multiset model; non-trivial = a script has a non-push opcode or malformed tail and a universe element; distinct by scenario hash"

func TestC08Filter(t *testing.T) {
	rep := verifkit.NewReport("C08", "TestC08Filter", c08Rule)
	defer rep.Finish(t)
	replay := func(path string) {
		var sc C08Scenario
		if _, _, err := verifkit.LoadReplay(path, &sc); err != nil {
			t.Fatalf("replay %s: %v", path, err)
		}
		v, _ := c08Run(&sc)
		rep.Case(verifkit.Hash(sc), true, "replay")
		if v != nil {
			rep.AddViolation(v.key, v.what, sc)
			t.Errorf("replay %s: %s: %s", path, v.key, v.what)
		}
	}
	if f := verifkit.ReplayFile("TestC08Filter"); f != "" {
		replay(f)
		return
	}
	for _, f := range verifkit.RegressionFiles("TestC08Filter") {
		replay(f)
	}
	rapid.Check(t, func(rt *rapid.T) {
		sc, gf := genC08(rt)
		v, f := c08Run(sc)
		for k, b := range gf {
			f[k] = b
		}
		if v == nil {
			if f["match"] || f["contract-match"] {
				f["result:relevant"] = true
			} else {
				f["result:irrelevant"] = true
			}
		}
		nt := (f["non-push-opcode"] || f["malformed"]) && f["universe-element"]
		rep.Case(verifkit.Hash(sc), nt, flagList(f)...)
		if nt && rep.WantSample() {
			rep.Sample(sc)
		}
		if v != nil {
			if verifkit.Known(v.key) {
				rep.Exclude(v.key)
				return
			}
			rep.Fail(v.key, v.what, sc)
			rt.Fatalf("%s: %s", v.key, v.what)
		}
	})
}
