//go:build verif

package spynode

// C12 — Untrusted peers cannot alter the chain, vouch for transactions or stall syncing.
// Non-interference: the same trusted history is run alone (A) and interleaved with arbitrary
// untrusted traffic (B).

import (
	"bytes"
	"fmt"
	"sort"
	"testing"

	"github.com/tokenized/pkg/bitcoin"
	"github.com/tokenized/pkg/wire"
	"github.com/tokenized/spynode/internal/verifkit"

	"pgregory.net/rapid"
)

// C12UEvent is one untrusted-connection event, fired after trusted event number After.
type C12UEvent struct {
	After   int      `json:"after"`
	Conn    int      `json:"conn"`
	Op      string   `json:"op"` // version verify headers inv tx exttx block addr reject check
	Names   []string `json:"names,omitempty"`
	Tx      int      `json:"tx,omitempty"`
	Block   string   `json:"block,omitempty"`
	Corrupt bool     `json:"corrupt,omitempty"`
	Parse   bool     `json:"parse,omitempty"`
}

// C12Scenario is a trusted plan plus untrusted traffic.
type C12Scenario struct {
	Plan      C01Scenario `json:"plan"`
	Txs       []TxSpec    `json:"txs"`
	Untrusted int         `json:"untrusted"`
	UEvents   []C12UEvent `json:"uevents"`
}

type c12Outcome struct {
	headers   []string // "height:hash"
	chain     []bitcoin.Hash32
	proven    []string // txids reported with a merkle proof
	converged bool
	why       string
	v         *nodeViolation
}

func c12Run(sc *C12Scenario, withUntrusted bool, flags map[string]bool) (out *c12Outcome) {
	out = &c12Outcome{}
	plan := &sc.Plan
	tree := buildTree(&plan.Tree)
	fetch := newStubFetcher()
	txs := txUniverse(sc.Txs, fetch)
	cfg := stepConfig()
	if b, ok := tree.ByName[plan.Start]; ok {
		cfg.StartHash = b.Hash
	} else {
		cfg.StartHash[0] = 0x77
	}
	best := tree.ByName[plan.InitialBest]
	if best == nil {
		best = tree.Genesis
	}
	peer := newFakePeer(tree, best)
	peer.parseBlocks = plan.ParseBlocks
	sn := newStepNode(cfg, verifkit.NewMemStore(true), peer, fetch)
	sn.subs = subUniverse
	defer func() {
		if r := recover(); r != nil {
			out.v = &nodeViolation{"C12/panic", fmt.Sprintf("panic (untrusted traffic: %v): %v\n%s", withUntrusted, r, shortStack())}
		}
	}()
	if err := sn.boot(); err != nil {
		out.v = &nodeViolation{"C12/harness/boot", err.Error()}
		return out
	}
	sn.connect()
	var uns []*stepUntrusted
	verified := map[int]bool{}
	introducedByUntrusted := map[int]bool{}
	ensure := func(conn int) *stepUntrusted {
		for len(uns) <= conn {
			uns = append(uns, sn.addUntrusted(fmt.Sprintf("10.9.0.%d:8333", len(uns)+1)))
		}
		return uns[conn]
	}
	fire := func(ev C12UEvent) {
		u := ensure(ev.Conn % 3)
		if u.closed {
			return
		}
		wasVerified := u.un.untrustedState.IsReady()
		sentBefore := len(u.sent)
		deliveredBefore := len(sn.h1.snapshot())
		switch ev.Op {
		case "version":
			me := wire.NewNetAddressIPPort([]byte{127, 0, 0, 1}, 8333, 0)
			u.deliver(sn, wire.NewMsgVersion(me, me, 9, 5))
		case "verify":
			u.verify(sn)
		case "stale":
			// linked headers of a branch the node is not (or no longer) on, starting near its tip:
			// what a peer left behind by a reorganisation answers
			tipNow := sn.node.blocks.LastHeight()
			var cands []*verifkit.TBlock
			var cnames []string
			for n := range tree.ByName {
				cnames = append(cnames, n)
			}
			sortStrings(cnames)
			for _, n := range cnames {
				b := tree.ByName[n]
				if b.Height < 1 || b.Height > tipNow || b.Height < tipNow-5 {
					continue
				}
				if hh, err := sn.node.blocks.Hash(sn.ctx, b.Height); err == nil && *hh != b.Hash {
					cands = append(cands, b)
				}
			}
			if len(cands) == 0 {
				return
			}
			b := cands[ev.Tx%len(cands)]
			ev.Names = []string{b.Name}
			for {
				var child *verifkit.TBlock
				for _, n := range cnames {
					if c := tree.ByName[n]; c.Parent == b {
						child = c
						break
					}
				}
				if child == nil || len(ev.Names) >= 6 {
					break
				}
				ev.Names = append(ev.Names, child.Name)
				b = child
			}
			flags["stale-branch-headers"] = true
			fallthrough
		case "headers":
			hm := wire.NewMsgHeaders()
			var first *verifkit.TBlock
			linked := true
			var prevHash *bitcoin.Hash32
			for i, n := range ev.Names {
				var h wire.BlockHeader
				if b, ok := tree.ByName[n]; ok {
					h = b.Header
					if i == 0 {
						first = b
					}
				} else {
					h = unknownHeader(tree, n)
				}
				// linked = every header names the hash of the one before it (an unknown header built on
				// the previous one is linked)
				if i > 0 && (prevHash == nil || h.PrevBlock != *prevHash) {
					linked = false
				}
				hh := h
				prevHash = hh.BlockHash()
				_ = hm.AddBlockHeader(&hh)
			}
			tipBefore := sn.node.blocks.LastHeight()
			knownFirst := false
			firstHeight := -1
			if first != nil {
				// on the node's chain = some height answers with this hash (not the node's own
				// hash->height lookup, which is part of what is being judged); only heights near the
				// tip can make a verification legitimate
				for h := tipBefore; h >= 0 && h >= tipBefore-12; h-- {
					if hh, err := sn.node.blocks.Hash(sn.ctx, h); err == nil && *hh == first.Hash {
						firstHeight, knownFirst = h, true
						break
					}
				}
			}
			u.deliver(sn, hm)
			if !wasVerified && u.un.untrustedState.IsReady() {
				// verification succeeded: only legitimate for linked headers whose first is known and recent
				if !linked || !knownFirst || firstHeight < tipBefore-7 {
					out.v = &nodeViolation{"C12/verification/accepted-bad-headers", fmt.Sprintf("an untrusted connection was verified by headers %v (linked %v, first known %v at height %d, node tip %d)", ev.Names, linked, knownFirst, firstHeight, tipBefore)}
				}
				flags["verified-by-headers"] = true
			}
		case "inv", "tx", "exttx":
			i := ev.Tx % len(txs)
			tx := txs[i]
			h := *tx.TxHash()
			switch ev.Op {
			case "inv":
				inv := wire.NewMsgInv()
				_ = inv.AddInvVect(wire.NewInvVect(wire.InvTypeTx, &h))
				u.has[h] = tx
				u.deliver(sn, inv)
				// serve the body at once if asked
				for len(u.pending) > 0 && !u.closed {
					m := u.pending[0]
					u.pending = u.pending[1:]
					u.deliver(sn, m)
				}
			case "tx":
				u.deliver(sn, tx)
			case "exttx":
				var buf bytes.Buffer
				_ = tx.BtcEncode(&buf, wire.ProtocolVersion)
				u.deliver(sn, &wire.MsgExtended{ExtCommand: wire.CmdTx, Length: uint64(buf.Len()), Payload: buf.Bytes()})
			}
			for sn.txStep() {
			}
			if wasVerified {
				introducedByUntrusted[i] = true
				flags["untrusted-tx-reached-node"] = true
			} else {
				// (4) before verification nothing may be requested or delivered
				for _, m := range u.sent[sentBefore:] {
					if _, ok := m.(*wire.MsgGetData); ok {
						out.v = &nodeViolation{"C12/unverified/getdata", "an unverified untrusted connection's announcement led to a getdata on that connection"}
					}
				}
				for _, e := range sn.h1.snapshot()[deliveredBefore:] {
					if e.Kind == "tx" || e.Kind == "update" {
						out.v = &nodeViolation{"C12/unverified/delivery", "a transaction from an unverified untrusted connection was delivered to handlers"}
					}
				}
			}
		case "badtx":
			// a transaction that matches the subscriptions and spends outputs nobody knows (the output
			// fetcher answers with an error): anybody can make one up
			bad := wire.NewMsgTx(1)
			var prev bitcoin.Hash32
			prev[0], prev[1], prev[31] = byte(ev.Tx), 0xbd, 0xbd
			bad.AddTxIn(wire.NewTxIn(wire.NewOutPoint(&prev, 0), []byte{0x51}))
			bad.AddTxOut(wire.NewTxOut(1000, p2pkhLike(subUniverse[ev.Tx%3])))
			u.deliver(sn, bad)
			for sn.txStep() {
			}
			if wasVerified {
				flags["untrusted-unfetchable-tx"] = true
			}
			if sn.txThreadDead != "" {
				out.v = &nodeViolation{"C12/node-stopped-by-untrusted-tx", fmt.Sprintf("a transaction from an untrusted connection (verified: %v) that spends unknown outputs made transaction processing fail (%s): the node stops itself and no longer follows the trusted peer", wasVerified, sn.txThreadDead)}
			}
		case "block":
			b, ok := tree.ByName[ev.Block]
			if !ok || len(b.Txs) == 0 {
				return
			}
			m := b.Msg()
			if ev.Corrupt {
				body := append([]*wire.MsgTx{}, b.Txs...)
				c := body[0].Copy()
				c.LockTime += 7
				body = append(body, &c)
				m = b.MsgWithTxs(body)
				if sn.node.state.BlockIsRequested(&b.Hash) {
					flags["untrusted-bad-body-for-requested-block"] = true
				}
			}
			if sn.node.state.BlockIsRequested(&b.Hash) {
				flags["untrusted-block-for-requested"] = true
			}
			var msg wire.Message = m
			if ev.Parse {
				if pm, err := verifkit.ParseMsg(m); err == nil {
					msg = pm
				}
			}
			u.deliver(sn, msg)
		case "addr":
			u.deliver(sn, wire.NewMsgAddr())
		case "reject":
			u.deliver(sn, wire.NewMsgReject("tx", wire.RejectInvalid, "nope"))
		case "check":
			_ = u.un.check(sn.ctx)
			u.drain(sn)
		}
		verified[ev.Conn%3] = u.un.untrustedState.IsReady()
	}
	byAfter := map[int][]C12UEvent{}
	if withUntrusted {
		for _, ev := range sc.UEvents {
			byAfter[ev.After] = append(byAfter[ev.After], ev)
		}
	}
	for _, ev := range byAfter[-1] {
		fire(ev)
	}
	for i, ev := range plan.Events {
		switch ev.Op {
		case "deliver":
			sn.deliverNext(0)
		case "ping":
			sn.ping()
		case "blockstep":
			sn.blockStep()
		case "best":
			nb := tree.ByName[ev.Name]
			if nb != nil && nb.Height > peer.best.Height {
				peer.setBest(nb)
			}
		}
		for _, uev := range byAfter[i] {
			fire(uev)
			if out.v != nil {
				return out
			}
		}
	}
	ok, _ := sn.fairCompletion(func() bool { c, _ := sn.converged(); return c }, 40+4*len(tree.ByName))
	out.converged = ok
	if !ok {
		_, out.why = sn.converged()
		out.why += fmt.Sprintf("; block thread %q; requests outstanding %d; in-sync %v", sn.blockThreadDead, sn.node.state.TotalBlockRequestCount(), sn.node.state.IsReady())
	}
	for _, e := range sn.h1.snapshot() {
		switch e.Kind {
		case "headers":
			out.headers = append(out.headers, fmt.Sprintf("%d:%s", e.Height, e.Header.BlockHash().String()[:10]))
		case "tx", "update":
			if e.State.MerkleProof != nil {
				out.proven = append(out.proven, e.TxID.String()[:10])
			}
			if withUntrusted && e.State.Safe && e.State.MerkleProof == nil {
				out.v = &nodeViolation{"C12/safe-without-trusted-vouch", "a transaction only untrusted peers introduced was reported safe"}
			}
		}
	}
	sort.Strings(out.proven)
	sn.chainFrom = 0
	out.chain, _ = sn.nodeChain()
	if withUntrusted && out.v == nil {
		// white-box: nothing untrusted peers introduced may carry the trusted mark
		un := sn.node.txs.VerifUnconfirmed()
		for i := range introducedByUntrusted {
			h := *txs[i].TxHash()
			if e, ok := un[h]; ok && e.Trusted {
				out.v = &nodeViolation{"C12/untrusted-vouch", fmt.Sprintf("tx%d was only ever sent by untrusted peers but is tracked as vouched for by the trusted peer", i)}
			}
			if sn.node.memPool.IsTrusted(sn.ctx, h) {
				out.v = &nodeViolation{"C12/untrusted-vouch", fmt.Sprintf("tx%d was only ever sent by untrusted peers but the mempool marks it trusted", i)}
			}
		}
	}
	return out
}

func c12Judge(sc *C12Scenario) (*nodeViolation, map[string]bool) {
	flags := map[string]bool{}
	a := c12Run(sc, false, map[string]bool{})
	if a.v != nil {
		return &nodeViolation{"C12/baseline/" + a.v.key, "run without untrusted traffic: " + a.v.what}, flags
	}
	if !a.converged {
		// the trusted history alone does not converge: C01's business, not a C12 case
		flags["baseline-not-converged"] = true
		return nil, flags
	}
	b := c12Run(sc, true, flags)
	if b.v != nil {
		return b.v, flags
	}
	if !b.converged {
		return &nodeViolation{"C12/stall", "with untrusted traffic the node no longer converges to the trusted peer's chain (it does without): " + b.why}, flags
	}
	if fmt.Sprint(a.headers) != fmt.Sprint(b.headers) {
		return &nodeViolation{"C12/headers-differ", fmt.Sprintf("HandleHeaders sequence differs: alone %v, with untrusted traffic %v", a.headers, b.headers)}, flags
	}
	if fmt.Sprint(a.chain) != fmt.Sprint(b.chain) {
		return &nodeViolation{"C12/chain-differs", "the final chain differs between the runs with and without untrusted traffic"}, flags
	}
	if fmt.Sprint(a.proven) != fmt.Sprint(b.proven) {
		return &nodeViolation{"C12/confirmed-set-differs", fmt.Sprintf("transactions reported confirmed differ: alone %v, with untrusted traffic %v", a.proven, b.proven)}, flags
	}
	return nil, flags
}

func genC12(t *rapid.T) *C12Scenario {
	plan := genC01(t)
	plan.Silent = nil
	var evs []C01Event
	for _, e := range plan.Events {
		if e.Op == "reconnect" || e.Op == "restart" || e.Op == "dup" {
			continue
		}
		if e.Op == "deliver" {
			e.I = 0
		}
		if e.Op == "blockwin" {
			e = C01Event{Op: "blockstep"}
		}
		evs = append(evs, e)
	}
	plan.Events = evs
	sc := &C12Scenario{Plan: *plan, Txs: genTxSpecs(t, 4), Untrusted: 3}
	tree := buildTree(&plan.Tree)
	var names []string
	for n := range tree.ByName {
		names = append(names, n)
	}
	sortStrings(names)
	nu := rapid.IntRange(1, 25).Draw(t, "nuev")
	for i := 0; i < nu; i++ {
		ev := C12UEvent{After: rapid.IntRange(-1, len(plan.Events)-1).Draw(t, "after"), Conn: rapid.IntRange(0, 2).Draw(t, "conn"),
			Op: rapid.SampledFrom([]string{"version", "verify", "verify", "headers", "headers", "stale", "inv", "tx", "tx", "exttx", "badtx", "block", "block", "block", "addr", "reject", "check"}).Draw(t, "uop")}
		switch ev.Op {
		case "verify":
			// an honest verification needs the node to know recent headers: place it late
			if n := len(plan.Events); n > 2 {
				ev.After = rapid.IntRange(n/3, n-1).Draw(t, "vafter")
			}
		case "headers":
			for k, c := 0, rapid.IntRange(0, 5).Draw(t, "nh"); k < c; k++ {
				if rapid.IntRange(0, 5).Draw(t, "unk") == 0 {
					ev.Names = append(ev.Names, fmt.Sprintf("u:%s:%d", rapid.SampledFrom(names).Draw(t, "up"), k))
				} else {
					ev.Names = append(ev.Names, rapid.SampledFrom(names).Draw(t, "hn"))
				}
			}
		case "stale":
			ev.Tx = rapid.IntRange(0, 7).Draw(t, "which")
			if n := len(plan.Events); n > 2 {
				ev.After = rapid.IntRange(n/2, n-1).Draw(t, "safter")
			}
		case "inv", "tx", "exttx", "badtx":
			ev.Tx = rapid.IntRange(0, len(sc.Txs)-1).Draw(t, "tx")
		case "block":
			ev.Block = rapid.SampledFrom(names).Draw(t, "block")
			ev.Corrupt = rapid.Bool().Draw(t, "corrupt")
			ev.Parse = rapid.Bool().Draw(t, "parse")
		}
		sc.UEvents = append(sc.UEvents, ev)
	}
	return sc
}

func c12Nontrivial(f map[string]bool) bool {
	return f["untrusted-tx-reached-node"] || f["untrusted-block-for-requested"] || f["untrusted-bad-body-for-requested-block"] || f["untrusted-unfetchable-tx"]
}

const c12Rule = "non-interference pairs in step mode: a well-behaved trusted history (C01 generator without restarts) run alone and interleaved with up to 3 untrusted connections (real UntrustedNode objects without sockets) sending version, verification headers of any shape (valid, unknown first, too-low first, unlinked, unknown headers, linked headers of a branch the node has left), inv, tx (plain and extmsg-wrapped; relevant, conflicting, irrelevant, or relevant but spending outputs nobody can supply), blocks (any tree block, both forms, including a body that differs under the header of an outstanding trusted request), addr, reject and activity checks; oracle: identical HandleHeaders sequence, final chain and set of txids reported with a proof; B converges; verification only by linked recent known headers; unverified connections cause no getdata and no delivery; nothing untrusted peers introduced is marked trusted or reported safe; non-trivial = untrusted messages reached shared state (post-verification tx/inv, or a block for an outstanding request); distinct by scenario hash"

func TestC12NonInterference(t *testing.T) {
	rep := verifkit.NewReport("C12", "TestC12NonInterference", c12Rule)
	defer rep.Finish(t)
	replay := func(path string) {
		var sc C12Scenario
		if _, _, err := verifkit.LoadReplay(path, &sc); err != nil {
			t.Fatalf("replay %s: %v", path, err)
		}
		v, f := c12Judge(&sc)
		rep.Case(verifkit.Hash(sc), c12Nontrivial(f), "replay")
		if v != nil {
			if verifkit.Known(v.key) {
				rep.Exclude(v.key)
				return
			}
			rep.AddViolation(v.key, v.what, sc)
			t.Errorf("replay %s: %s: %s", path, v.key, v.what)
		}
	}
	if f := verifkit.ReplayFile("TestC12NonInterference"); f != "" {
		replay(f)
		return
	}
	for _, f := range verifkit.RegressionFiles("TestC12NonInterference") {
		replay(f)
	}
	rapid.Check(t, func(rt *rapid.T) {
		sc := genC12(rt)
		v, f := c12Judge(sc)
		rep.Case(verifkit.Hash(sc), c12Nontrivial(f), flagList(f)...)
		if c12Nontrivial(f) && rep.WantSample() {
			rep.Sample(sc)
		}
		if v != nil {
			if verifkit.Known(v.key) {
				rep.Exclude(v.key)
				return
			}
			rep.Fail(v.key, v.what, sc)
			rt.Fatalf("%s: %s", v.key, v.what)
		}
	})
}
