//go:build verif

package spynode

// C01 — Chain converges to the trusted peer's best chain through extensions and reorgs.

import (
	"fmt"
	"testing"
	"time"

	"github.com/tokenized/spynode/internal/verifkit"

	"pgregory.net/rapid"
)

// C01Event is one planned action.
type C01Event struct {
	Op   string `json:"op"`             // deliver ping blockstep blockwin best dup reconnect restart
	I    int    `json:"i,omitempty"`    // deliver: index within the reorder window (blocks only)
	Name string `json:"name,omitempty"` // best: new best tip
	// blockwin: the block thread processes its next block in its own goroutine and is held at its
	// K-th storage operation while the next N peer messages are handled; then it is released
	K int `json:"k,omitempty"`
	N int `json:"n,omitempty"`
}

// C01Scenario is a complete C01 case.
type C01Scenario struct {
	Tree        TreeSpec   `json:"tree"`
	Start       string     `json:"start"`        // start block name ("" = not on any chain)
	InitialBest string     `json:"initial_best"` // peer's best tip at connect time
	Silent      []string   `json:"silent,omitempty"`
	ParseBlocks bool       `json:"parse_blocks,omitempty"`
	Boundary    bool       `json:"boundary,omitempty"` // label only: the tree straddles the block file boundary
	Events      []C01Event `json:"events"`
}

func c01Run(sc *C01Scenario) (v *nodeViolation, flags map[string]bool) {
	flags = map[string]bool{}
	tree := buildTree(&sc.Tree)
	cfg := stepConfig()
	startBlock := tree.ByName[sc.Start]
	if startBlock != nil {
		cfg.StartHash = startBlock.Hash
	} else {
		cfg.StartHash[0] = 0x77
		flags["start-absent"] = true
	}
	best := tree.ByName[sc.InitialBest]
	if best == nil {
		best = tree.Genesis
	}
	peer := newFakePeer(tree, best)
	peer.parseBlocks = sc.ParseBlocks
	if sc.Tree.Main > 1000 {
		flags["file-boundary"] = true
	}
	for _, n := range sc.Silent {
		if b, ok := tree.ByName[n]; ok {
			peer.silentBlocks[b.Hash] = true
			flags["silent-block"] = true
		}
	}
	sn := newStepNode(cfg, verifkit.NewMemStore(true), peer, newStubFetcher())
	gate := &holdGate{Role: "block"}
	sn.store.SetGate(gate.hook)
	sn.blockCtx = roleCtx(sn.ctx, "block")
	defer func() {
		if r := recover(); r != nil {
			v = &nodeViolation{"C01/panic", fmt.Sprintf("panic at step %d: %v\n%s", sn.step, r, shortStack())}
		}
	}()
	var insyncViolation *nodeViolation
	sn.h1.after = func(ev *recEvent) {
		if ev.Kind != "insync" || insyncViolation != nil {
			return
		}
		flags["insync-notified"] = true
		d := peer.deliveredTip
		if d == nil {
			return
		}
		startHeight := sn.node.state.StartHeight()
		if startHeight != -1 && d.Height < startHeight {
			return
		}
		if !sn.node.blocks.Contains(&d.Hash) {
			insyncViolation = &nodeViolation{"C01/insync/before-announced-blocks-held", fmt.Sprintf("HandleInSync at step %d with node tip %d, but the peer had already announced best-chain block %s (height %d) in a message the node finished handling", sn.step, ev.NodeHeight, d.Name, d.Height)}
		}
	}
	if err := sn.boot(); err != nil {
		return &nodeViolation{"C01/harness/boot", err.Error()}, flags
	}
	sn.connect()

	for i, ev := range sc.Events {
		switch ev.Op {
		case "deliver":
			idx := 0
			if ev.I > 0 && ev.I < len(peer.toNode) {
				ok := true
				for k := 0; k <= ev.I; k++ {
					if peer.toNode[k].tag != "block" {
						ok = false
					}
				}
				if ok {
					idx = ev.I
					flags["reordered-blocks"] = true
				}
			}
			sn.deliverNext(idx)
		case "dup":
			if len(peer.toNode) > 0 && (peer.toNode[0].tag == "headers-announce" || peer.toNode[0].tag == "headers-response") {
				peer.toNode = append([]peerMsg{peer.toNode[0]}, peer.toNode...)
				flags["duplicate-headers"] = true
			}
		case "ping":
			sn.ping()
		case "blockstep":
			sn.blockStep()
		case "blockwin":
			gate.arm(ev.K)
			done := make(chan struct{})
			sn.step++
			sn.progress++
			blockDead, msgPanic := "", ""
			go func() {
				defer close(done)
				defer func() {
					if r := recover(); r != nil {
						blockDead = fmt.Sprintf("panic in the block thread: %v", r)
					}
				}()
				// the raw step leaves the harness's own state to the goroutine that delivers messages
				blockDead = sn.blockStepRaw()
			}()
			if gate.waitHeld(done, 300*time.Millisecond) {
				flags["block-thread-held"] = true
				msgs := make(chan struct{})
				go func() {
					defer close(msgs)
					defer func() {
						if r := recover(); r != nil {
							msgPanic = fmt.Sprintf("%v", r)
						}
					}()
					for k := 0; k < ev.N; k++ {
						if !sn.deliverNext(0) {
							break
						}
					}
				}()
				select {
				case <-msgs:
				case <-time.After(250 * time.Millisecond):
					flags["message-handling-waits-for-block-thread"] = true
				}
				gate.release()
				<-msgs
			}
			<-done
			if msgPanic != "" {
				panic(msgPanic)
			}
			if blockDead != "" {
				sn.blockThreadDead = blockDead
			}
			sn.drain()
		case "best":
			nb := tree.ByName[ev.Name]
			if nb == nil || nb.Height <= peer.best.Height {
				continue
			}
			fork := verifkit.ForkPoint(peer.best, nb)
			if fork != peer.best {
				flags["reorg"] = true
				nodeH := sn.node.blocks.LastHeight()
				switch {
				case startBlock != nil && fork.Height < startBlock.Height:
					flags["reorg-below-start"] = true
				case fork.Height < nodeH:
					flags["reorg-in-processed"] = true
				case fork.Height == nodeH:
					flags["reorg-on-latest"] = true
				default:
					flags["reorg-in-pending"] = true
				}
				if !sn.node.state.IsReady() {
					flags["reorg-during-sync"] = true
				} else {
					flags["reorg-after-insync"] = true
				}
			} else {
				flags["extend"] = true
			}
			peer.setBest(nb)
		case "reconnect":
			sn.reconnect()
			flags["reconnect"] = true
		case "restart":
			if err := sn.cleanRestart(); err != nil {
				return &nodeViolation{"C01/restart/load-failed", fmt.Sprintf("event %d: clean restart failed to load: %v", i, err)}, flags
			}
			flags["restart"] = true
		}
		if insyncViolation != nil {
			return insyncViolation, flags
		}
	}
	reconnectsBefore := sn.reconnects
	rounds := 40 + 4*len(tree.ByName)
	if rounds > 520 {
		rounds = 520 // boundary profile: at most ~60 blocks are ever downloaded
	}
	ok, used := sn.fairCompletion(func() bool { c, _ := sn.converged(); return c }, rounds)
	if sn.reconnects > reconnectsBefore {
		flags["timeout-recovery"] = true
	}
	if insyncViolation != nil {
		return insyncViolation, flags
	}
	if !ok {
		_, why := sn.converged()
		key := "C01/stall/other"
		switch {
		case sn.blockThreadDead != "":
			key = "C01/stall/block-thread-exit"
		case sn.txThreadDead != "":
			key = "C01/stall/tx-thread-exit"
		case sn.node.state.IsReady():
			key = "C01/stall/in-sync-but-behind"
		case sn.reconnects-reconnectsBefore >= 3:
			key = "C01/stall/restart-loop"
		}
		return &nodeViolation{key, fmt.Sprintf("after %d fair completion rounds (%d reconnects by time-out): %s; peer best %s; block thread: %q; requests outstanding %d; in-sync flag %v", used, sn.reconnects-reconnectsBefore, why, peer.best.Name, sn.blockThreadDead, sn.node.state.TotalBlockRequestCount(), sn.node.state.IsReady())}, flags
	}
	// every height-to-hash answer equals the peer's best chain
	path := peer.best.Path()
	for h, b := range path {
		if len(path) > 200 && h < len(path)-45 && h%97 != 0 {
			continue // long chains: every answer near the tip and the fork points, a sample below (each read of an older height parses a whole block file)
		}
		hash, err := sn.node.blocks.Hash(sn.ctx, h)
		if err != nil {
			return &nodeViolation{"C01/chain/unreadable", fmt.Sprintf("Hash(%d) with tip %d: %v", h, sn.node.blocks.LastHeight(), err)}, flags
		}
		if *hash != b.Hash {
			return &nodeViolation{"C01/chain/differs", fmt.Sprintf("height %d: node does not hold the peer's block %s", h, b.Name)}, flags
		}
		if got, ok := sn.node.blocks.Height(&b.Hash); !ok || got != h {
			return &nodeViolation{"C01/chain/height-of-hash", fmt.Sprintf("Height(%s) = (%d,%v), want %d", b.Name, got, ok, h)}, flags
		}
	}
	if bh, err := sn.node.BlockHash(sn.ctx, -1); err != nil || *bh != peer.best.Hash {
		return &nodeViolation{"C01/chain/blockhash-minus-one", "BlockHash(-1) is not the peer's tip"}, flags
	}
	return nil, flags
}

func c01Nontrivial(f map[string]bool) bool {
	return f["reorg"] || f["restart"] || f["reconnect"] || f["timeout-recovery"] || f["reordered-blocks"]
}

const c01Rule = "step-mode plans: generated block tree, start block (early/mid/late/absent), peer best-chain history (extend, reorganise to a longer branch incl. forks among pending blocks, below the start block, before and after in-sync), blocks the peer does not serve until the node's request time-out reconnects, duplicate header announcements, block reordering within a window, reconnects and clean restarts, and a generated interleaving of message delivery / check / block-processing steps, a sixth of the block steps running in their own goroutine and held at a drawn storage operation while peer messages are handled; then fair completion; oracle: node chain == peer best chain at every height, in-sync notification only when all announced best-chain blocks are held; non-trivial = history contains a reorg, restart, reconnect, time-out-driven recovery or reordered delivery; distinct by scenario hash"

func genC01(t *rapid.T) *C01Scenario {
	// 1 case in 25 straddles the 1000-header block file boundary of the block repository
	boundary := rapid.IntRange(0, 24).Draw(t, "profile") == 0
	sc := &C01Scenario{ParseBlocks: rapid.Bool().Draw(t, "parse")}
	minHeight := 1
	if boundary {
		sc.Boundary = true
		minHeight = 985
		main := rapid.IntRange(1001, 1016).Draw(t, "main")
		sc.Tree = TreeSpec{Main: main}
		for i, nb := 0, rapid.IntRange(1, 2).Draw(t, "branches"); i < nb; i++ {
			sc.Tree.Branches = append(sc.Tree.Branches, BranchSpec{Tag: string(rune('b' + i)),
				Fork: rapid.IntRange(988, main-1).Draw(t, "fork"), Len: rapid.IntRange(1, 20).Draw(t, "blen")})
		}
	} else {
		sc.Tree = genTreeSpec(t, 24)
		// make branches longer so that reorganisations to them are possible
		for i := range sc.Tree.Branches {
			sc.Tree.Branches[i].Len += rapid.IntRange(0, 14).Draw(t, "extra")
		}
	}
	tree := buildTree(&sc.Tree)
	var names []string
	for n, b := range tree.ByName {
		if n != "g" && b.Height >= minHeight {
			names = append(names, n)
		}
	}
	sortStrings(names)
	initial := rapid.SampledFrom(names).Draw(t, "initial")
	sc.InitialBest = initial
	ib := tree.ByName[initial]
	switch rapid.IntRange(0, 5).Draw(t, "startkind") {
	case 0:
		sc.Start = ""
	case 1:
		sc.Start = ib.Path()[minHeight].Name
	default:
		p := ib.Path()
		sc.Start = p[rapid.IntRange(minHeight, len(p)-1).Draw(t, "start")].Name
	}
	if rapid.IntRange(0, 5).Draw(t, "silent") == 0 {
		sc.Silent = append(sc.Silent, rapid.SampledFrom(names).Draw(t, "silentname"))
	}
	cur := ib.Height
	nev := rapid.IntRange(4, 60).Draw(t, "nev")
	for i := 0; i < nev; i++ {
		switch rapid.SampledFrom([]string{"deliver", "deliver", "deliver", "deliver", "deliver", "blockstep", "blockstep", "blockstep", "ping", "best", "best", "dup", "reconnect", "restart"}).Draw(t, "ev") {
		case "deliver":
			sc.Events = append(sc.Events, C01Event{Op: "deliver", I: rapid.SampledFrom([]int{0, 0, 0, 1, 2, 3}).Draw(t, "i")})
		case "blockstep":
			if rapid.IntRange(0, 5).Draw(t, "win") == 0 {
				sc.Events = append(sc.Events, C01Event{Op: "blockwin", K: rapid.IntRange(0, 4).Draw(t, "wk"), N: rapid.IntRange(1, 4).Draw(t, "wn")})
			} else {
				sc.Events = append(sc.Events, C01Event{Op: "blockstep"})
			}
		case "ping":
			sc.Events = append(sc.Events, C01Event{Op: "ping"})
		case "dup":
			sc.Events = append(sc.Events, C01Event{Op: "dup"})
		case "reconnect":
			if rapid.IntRange(0, 3).Draw(t, "rc") == 0 {
				sc.Events = append(sc.Events, C01Event{Op: "reconnect"})
			}
		case "restart":
			if rapid.IntRange(0, 3).Draw(t, "rs") == 0 {
				sc.Events = append(sc.Events, C01Event{Op: "restart"})
			}
		case "best":
			var higher []string
			for _, n := range names {
				if tree.ByName[n].Height > cur {
					higher = append(higher, n)
				}
			}
			if len(higher) == 0 {
				continue
			}
			n := rapid.SampledFrom(higher).Draw(t, "best")
			cur = tree.ByName[n].Height
			sc.Events = append(sc.Events, C01Event{Op: "best", Name: n})
		}
	}
	return sc
}

func sortStrings(s []string) {
	for i := 1; i < len(s); i++ {
		for j := i; j > 0 && s[j] < s[j-1]; j-- {
			s[j], s[j-1] = s[j-1], s[j]
		}
	}
}

func TestC01Converge(t *testing.T) {
	rep := verifkit.NewReport("C01", "TestC01Converge", c01Rule)
	defer rep.Finish(t)
	run := func(path string) (*nodeViolation, map[string]bool, interface{}) {
		var sc C01Scenario
		if _, _, err := verifkit.LoadReplay(path, &sc); err != nil {
			t.Fatalf("replay %s: %v", path, err)
		}
		v, f := c01Run(&sc)
		return v, f, sc
	}
	if f := verifkit.ReplayFile("TestC01Converge"); f != "" {
		nodeReplay(t, rep, f, run, c01Nontrivial)
		return
	}
	for _, f := range verifkit.RegressionFiles("TestC01Converge") {
		nodeReplay(t, rep, f, run, c01Nontrivial)
	}
	rapid.Check(t, func(rt *rapid.T) {
		sc := genC01(rt)
		v, f := c01Run(sc)
		rep.Case(verifkit.Hash(sc), c01Nontrivial(f), flagList(f)...)
		if c01Nontrivial(f) && rep.WantSample() {
			rep.Sample(sc)
		}
		if v != nil {
			if verifkit.Known(v.key) {
				rep.Exclude(v.key)
				return
			}
			rep.Fail(v.key, v.what, sc)
			rt.Fatalf("%s: %s", v.key, v.what)
		}
	})
}
