package verifkit

import (
	"bufio"
	"encoding/hex"
	"fmt"
	"io"
	"os"
	"os/exec"
	"regexp"
	"strconv"
	"strings"
	"syscall"
)

// Worker is a child copy of the test binary that decodes hostile inputs under an address-space
// limit, so that a fatal runtime error (out of memory) is attributable to one input and the search
// continues afterwards.
type Worker struct {
	runRegex string
	cmd      *exec.Cmd
	in       io.WriteCloser
	out      *bufio.Reader
	errFile  *os.File
	Deaths   int
	Spawned  int
}

// NewWorker prepares a worker that runs the given test function of this same binary.
func NewWorker(runRegex string) *Worker { return &Worker{runRegex: runRegex} }

func (w *Worker) start() error {
	f, err := os.CreateTemp("", "verif-worker-stderr-*")
	if err != nil {
		return err
	}
	w.errFile = f
	cmd := exec.Command(os.Args[0], "-test.run", w.runRegex, "-test.count=1", "-test.timeout=0")
	cmd.Env = append(os.Environ(), "VERIF_WORKER=1", "VERIF_OUT=", "GOMAXPROCS=4")
	cmd.Stderr = f
	in, err := cmd.StdinPipe()
	if err != nil {
		return err
	}
	out, err := cmd.StdoutPipe()
	if err != nil {
		return err
	}
	if err := cmd.Start(); err != nil {
		return err
	}
	w.cmd, w.in, w.out = cmd, in, bufio.NewReaderSize(out, 1<<16)
	w.Spawned++
	// wait for the ready line (the test framework may print other lines first)
	for {
		line, err := w.out.ReadString('\n')
		if err != nil {
			return fmt.Errorf("worker did not start: %v", err)
		}
		if strings.HasPrefix(line, "READY") {
			return nil
		}
	}
}

// Close stops the worker.
func (w *Worker) Close() {
	if w.cmd != nil {
		_ = w.in.Close()
		_ = w.cmd.Wait()
		w.cmd = nil
	}
	if w.errFile != nil {
		_ = w.errFile.Close()
		_ = os.Remove(w.errFile.Name())
		w.errFile = nil
	}
}

var fatalFrame = regexp.MustCompile(`(?m)^(github\.com/[^\s(]+(?:\([^)]*\))?[^\s(]*)\(`)

// deathInfo extracts the fatal error and the innermost non-runtime frame from the worker's stderr.
func (w *Worker) deathInfo() (string, string) {
	_ = w.errFile.Sync()
	b, _ := os.ReadFile(w.errFile.Name())
	s := string(b)
	msg := "worker died"
	if i := strings.Index(s, "fatal error:"); i >= 0 {
		end := strings.IndexByte(s[i:], '\n')
		if end > 0 {
			msg = s[i : i+end]
		}
		j := strings.LastIndex(s[:i], "\n")
		k := strings.LastIndex(s[:max0(j)], "\n")
		if k >= 0 && j > k {
			msg = strings.TrimSpace(s[k+1:j]) + "; " + msg
		}
	} else if len(s) > 0 {
		msg = strings.TrimSpace(s[:minInt(len(s), 300)])
	}
	site := "unknown"
	// first goroutine block only
	blk := s
	if i := strings.Index(s, "\n\ngoroutine "); i >= 0 {
		rest := s[i+2:]
		if j := strings.Index(rest, "\n\n"); j >= 0 {
			blk = rest[:j]
		} else {
			blk = rest
		}
	}
	for _, m := range fatalFrame.FindAllStringSubmatch(blk, -1) {
		fn := m[1]
		if strings.Contains(fn, "/verifkit.") {
			continue
		}
		site = fn
		break
	}
	return msg, site
}

func max0(i int) int {
	if i < 0 {
		return 0
	}
	return i
}

func minInt(a, b int) int {
	if a < b {
		return a
	}
	return b
}

// InfraDeaths counts worker deaths that were not memory exhaustion (never reported as violations).
var InfraDeaths int

// Do sends one input. died=true means the worker process terminated with a fatal out-of-memory
// error while decoding it. Deaths for any other reason (thread creation failure under load, kill)
// are infrastructure noise: the input is retried in a fresh worker and, if that keeps happening,
// err is set and nothing is concluded about the input.
func (w *Worker) Do(cmdWord, kind string, input []byte) (o Outcome, attr string, died bool, deathMsg, deathSite string, err error) {
	for try := 0; try < 3; try++ {
		o, attr, died, deathMsg, deathSite, err = w.do1(cmdWord, kind, input)
		if err != nil || !died {
			return
		}
		if strings.Contains(deathMsg, "out of memory") || strings.Contains(deathMsg, "cannot allocate") {
			return
		}
		InfraDeaths++
	}
	err = fmt.Errorf("worker died 3 times without an out-of-memory error: %s", deathMsg)
	died = false
	return
}

func (w *Worker) do1(cmdWord, kind string, input []byte) (o Outcome, attr string, died bool, deathMsg, deathSite string, err error) {
	if w.cmd == nil {
		if err = w.start(); err != nil {
			return
		}
	}
	_, werr := fmt.Fprintf(w.in, "%s %s %s\n", cmdWord, kind, hex.EncodeToString(input))
	var line string
	if werr == nil {
		for {
			line, werr = w.out.ReadString('\n')
			if werr != nil || strings.HasPrefix(line, "R ") || strings.HasPrefix(line, "A ") {
				break
			}
		}
	}
	if werr != nil {
		_ = w.cmd.Wait()
		w.cmd = nil
		w.Deaths++
		deathMsg, deathSite = w.deathInfo()
		_ = w.errFile.Close()
		_ = os.Remove(w.errFile.Name())
		w.errFile = nil
		died = true
		return
	}
	f := strings.SplitN(strings.TrimSpace(line), " ", 5)
	if f[0] == "A" && len(f) >= 2 {
		attr = f[1]
		return
	}
	if len(f) < 4 {
		err = fmt.Errorf("bad worker reply %q", line)
		return
	}
	o.Alloc, _ = strconv.ParseUint(f[1], 10, 64)
	o.Panicked = f[2] == "1"
	o.PanicSite = f[3]
	if len(f) == 5 {
		o.PanicMsg = f[4]
	}
	return
}

// IsWorker reports whether this process is a worker child.
func IsWorker() bool { return os.Getenv("VERIF_WORKER") == "1" }

// ServeWorker is the worker main loop: decoders by kind. Never returns normally (os.Exit).
func ServeWorker(decoders map[string]func([]byte), limitBytes uint64) {
	lim := syscall.Rlimit{Cur: limitBytes, Max: limitBytes}
	_ = syscall.Setrlimit(syscall.RLIMIT_AS, &lim)
	in := bufio.NewReaderSize(os.Stdin, 1<<20)
	out := bufio.NewWriter(os.Stdout)
	fmt.Fprintln(out, "READY")
	out.Flush()
	for {
		line, err := in.ReadString('\n')
		if err != nil {
			os.Exit(0)
		}
		f := strings.Fields(line)
		if len(f) < 2 {
			continue
		}
		var b []byte
		if len(f) >= 3 {
			b, _ = hex.DecodeString(f[2])
		}
		dec := decoders[f[1]]
		if dec == nil {
			fmt.Fprintf(out, "R 0 1 no-decoder unknown kind %s\n", f[1])
			out.Flush()
			continue
		}
		switch f[0] {
		case "D":
			o := Guard(func() { dec(b) })
			p := 0
			if o.Panicked {
				p = 1
			}
			site := o.PanicSite
			if site == "" {
				site = "-"
			}
			fmt.Fprintf(out, "R %d %d %s %s\n", o.Alloc, p, site, strings.ReplaceAll(o.PanicMsg, "\n", " "))
		case "T":
			fmt.Fprintf(out, "A %s\n", AttributeAlloc(func() { dec(b) }))
		}
		out.Flush()
	}
}
