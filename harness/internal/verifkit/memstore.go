package verifkit

import (
	"context"
	"errors"
	"sort"
	"strings"
	"sync"

	"github.com/tokenized/pkg/storage"
)

// Mutation is one storage mutation in issue order.
type Mutation struct {
	Op   string // "write" | "remove"
	Key  string
	Data []byte
	Step int // value of *StepRef when the mutation was issued
}

// ErrInjected is the error returned by an injected storage fault.
var ErrInjected = errors.New("verif: injected storage fault")

// MemStore is an in-memory storage.Storage with copy-on-read/write, a mutation log, a switch for
// the behaviour of removing a missing key, and single-fault injection.
type MemStore struct {
	mu   sync.Mutex
	data map[string][]byte

	// RemoveMissingOK: true = filesystem behaviour (os.RemoveAll: success), false = mock/S3-style
	// behaviour (ErrNotFound).
	RemoveMissingOK bool

	Log     []Mutation
	LogOn   bool
	StepRef *int // optional logical step counter stamped into logged mutations
	OpCount int  // reads + writes + removes seen so far (for fault positions)
	FailAt  int  // 1-based operation index that fails once; 0 = none
	FailHit bool
	FailOp  string
	// FailOnlyOps restricts injected faults to these op kinds when non-empty ("read","write","remove").
	FailOnlyOps string
	// FailKind/FailKindAt: fail the FailKindAt-th (1-based) operation of kind FailKind, once.
	FailKind   string
	FailKindAt int
	kindCount  map[string]int

	// Gate, when set, is called at the start of every Read/Write/Remove, outside the store's own
	// lock, with the caller's context. A harness that owns the schedule can block a tagged
	// goroutine here while another one runs (see RoleKey).
	Gate func(ctx context.Context, op, key string)
}

type roleKey struct{}

// RoleKey tags a context with the name of the goroutine role that uses it, for Gate.
var RoleKey = roleKey{}

func (s *MemStore) gate(ctx context.Context, op, key string) {
	s.mu.Lock()
	g := s.Gate
	s.mu.Unlock()
	if g != nil {
		g(ctx, op, key)
	}
}

// SetGate installs or removes the gate function.
func (s *MemStore) SetGate(g func(ctx context.Context, op, key string)) {
	s.mu.Lock()
	s.Gate = g
	s.mu.Unlock()
}

// ArmKindFault arms a single fault on the n-th operation of the given kind from now on.
func (s *MemStore) ArmKindFault(kind string, n int) {
	s.mu.Lock()
	defer s.mu.Unlock()
	s.FailKind, s.FailKindAt, s.FailHit, s.FailOp = kind, n, false, ""
	s.kindCount = map[string]int{}
}

// Disarm removes any armed fault.
func (s *MemStore) Disarm() {
	s.mu.Lock()
	defer s.mu.Unlock()
	s.FailKind, s.FailKindAt, s.FailAt = "", 0, 0
}

// NewMemStore creates an empty store.
func NewMemStore(removeMissingOK bool) *MemStore {
	return &MemStore{data: map[string][]byte{}, RemoveMissingOK: removeMissingOK}
}

func cp(b []byte) []byte {
	if b == nil {
		return nil
	}
	c := make([]byte, len(b))
	copy(c, b)
	return c
}

func (s *MemStore) fault(op string) bool {
	s.OpCount++
	if s.FailKindAt != 0 && !s.FailHit {
		if s.kindCount == nil {
			s.kindCount = map[string]int{}
		}
		s.kindCount[op]++
		if op == s.FailKind && s.kindCount[op] == s.FailKindAt {
			s.FailHit = true
			s.FailOp = op
			return true
		}
	}
	if s.FailAt != 0 && s.OpCount == s.FailAt && !s.FailHit {
		if s.FailOnlyOps != "" && !strings.Contains(s.FailOnlyOps, op) {
			return false
		}
		s.FailHit = true
		s.FailOp = op
		return true
	}
	return false
}

// Read implements storage.Reader.
func (s *MemStore) Read(ctx context.Context, key string) ([]byte, error) {
	s.gate(ctx, "read", key)
	s.mu.Lock()
	defer s.mu.Unlock()
	if s.fault("read") {
		return nil, ErrInjected
	}
	b, ok := s.data[key]
	if !ok {
		return nil, storage.ErrNotFound
	}
	return cp(b), nil
}

// Write implements storage.Writer.
func (s *MemStore) Write(ctx context.Context, key string, body []byte, o *storage.Options) error {
	s.gate(ctx, "write", key)
	s.mu.Lock()
	defer s.mu.Unlock()
	if s.fault("write") {
		return ErrInjected
	}
	s.data[key] = cp(body)
	if s.LogOn {
		s.Log = append(s.Log, Mutation{Op: "write", Key: key, Data: cp(body), Step: s.stepNow()})
	}
	return nil
}

// Remove implements storage.Remover.
func (s *MemStore) Remove(ctx context.Context, key string) error {
	s.gate(ctx, "remove", key)
	s.mu.Lock()
	defer s.mu.Unlock()
	if s.fault("remove") {
		return ErrInjected
	}
	if _, ok := s.data[key]; !ok {
		if s.RemoveMissingOK {
			return nil
		}
		return storage.ErrNotFound
	}
	delete(s.data, key)
	if s.LogOn {
		s.Log = append(s.Log, Mutation{Op: "remove", Key: key, Step: s.stepNow()})
	}
	return nil
}

func (s *MemStore) stepNow() int {
	if s.StepRef != nil {
		return *s.StepRef
	}
	return 0
}

// Search implements storage.Searcher.
func (s *MemStore) Search(ctx context.Context, q map[string]string) ([][]byte, error) {
	s.mu.Lock()
	defer s.mu.Unlock()
	var out [][]byte
	for _, k := range s.keysLocked(q["path"]) {
		out = append(out, cp(s.data[k]))
	}
	return out, nil
}

// Clear implements storage.Clearer.
func (s *MemStore) Clear(ctx context.Context, q map[string]string) error {
	s.mu.Lock()
	defer s.mu.Unlock()
	for _, k := range s.keysLocked(q["path"]) {
		delete(s.data, k)
		if s.LogOn {
			s.Log = append(s.Log, Mutation{Op: "remove", Key: k})
		}
	}
	return nil
}

// List implements storage.List.
func (s *MemStore) List(ctx context.Context, path string) ([]string, error) {
	s.mu.Lock()
	defer s.mu.Unlock()
	return s.keysLocked(path), nil
}

// Copy implements storage.Copy.
func (s *MemStore) Copy(ctx context.Context, from, to string) error {
	s.mu.Lock()
	defer s.mu.Unlock()
	b, ok := s.data[from]
	if !ok {
		return storage.ErrNotFound
	}
	s.data[to] = cp(b)
	if s.LogOn {
		s.Log = append(s.Log, Mutation{Op: "write", Key: to, Data: cp(b)})
	}
	return nil
}

func (s *MemStore) keysLocked(prefix string) []string {
	var ks []string
	for k := range s.data {
		if strings.HasPrefix(k, prefix) {
			ks = append(ks, k)
		}
	}
	sort.Strings(ks)
	return ks
}

// Snapshot returns a deep copy of the current contents.
func (s *MemStore) Snapshot() map[string][]byte {
	s.mu.Lock()
	defer s.mu.Unlock()
	out := make(map[string][]byte, len(s.data))
	for k, v := range s.data {
		out[k] = cp(v)
	}
	return out
}

// Clone returns a new store with the same contents (no log, no fault).
func (s *MemStore) Clone() *MemStore {
	n := NewMemStore(s.RemoveMissingOK)
	n.data = s.Snapshot()
	return n
}

// FromImage builds a store from an initial image plus the first n logged mutations.
func FromImage(base map[string][]byte, log []Mutation, n int, removeMissingOK bool) *MemStore {
	st := NewMemStore(removeMissingOK)
	for k, v := range base {
		st.data[k] = cp(v)
	}
	for i := 0; i < n && i < len(log); i++ {
		m := log[i]
		if m.Op == "write" {
			st.data[m.Key] = cp(m.Data)
		} else {
			delete(st.data, m.Key)
		}
	}
	return st
}

// Keys lists all keys (sorted).
func (s *MemStore) Keys() []string {
	s.mu.Lock()
	defer s.mu.Unlock()
	return s.keysLocked("")
}

// StartLog begins recording mutations (clearing any previous log).
func (s *MemStore) StartLog() {
	s.mu.Lock()
	defer s.mu.Unlock()
	s.Log = nil
	s.LogOn = true
}

var _ storage.Storage = (*MemStore)(nil)
