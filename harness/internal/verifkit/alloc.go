package verifkit

import (
	"fmt"
	"os"
	"path/filepath"
	"runtime"
	"strings"
)

// AllocBound is the C20 allocation budget for decoding an input of n bytes.
func AllocBound(n int) uint64 { return 16*1024 + 32*uint64(n) }

// Outcome of one guarded call.
type Outcome struct {
	Alloc     uint64 // bytes allocated during the call (TotalAlloc delta)
	Panicked  bool
	PanicMsg  string
	PanicSite string // innermost non-runtime, non-harness function on the panicking stack
}

func siteFromPCs(pcs []uintptr) string {
	frames := runtime.CallersFrames(pcs)
	for {
		f, more := frames.Next()
		fn := f.Function
		if fn != "" && !strings.HasPrefix(fn, "runtime.") && !strings.HasPrefix(fn, "runtime/") &&
			!strings.Contains(fn, "/verifkit.") && !strings.Contains(fn, ".verif") &&
			!strings.HasPrefix(fn, "testing.") && !strings.Contains(fn, ".c20") && !strings.Contains(fn, ".Test") &&
			!strings.HasPrefix(fn, "pgregory.net/") && !strings.HasPrefix(fn, "reflect.") {
			return fn
		}
		if !more {
			return "unknown"
		}
	}
}

// Guard runs fn on the calling goroutine, measuring allocation and catching panics.
func Guard(fn func()) (o Outcome) {
	var before, after runtime.MemStats
	runtime.ReadMemStats(&before)
	func() {
		defer func() {
			if r := recover(); r != nil {
				o.Panicked = true
				o.PanicMsg = fmt.Sprint(r)
				pcs := make([]uintptr, 64)
				n := runtime.Callers(2, pcs)
				o.PanicSite = siteFromPCs(pcs[:n])
			}
		}()
		fn()
	}()
	runtime.ReadMemStats(&after)
	o.Alloc = after.TotalAlloc - before.TotalAlloc
	return o
}

// AttributeAlloc re-runs fn with full memory profiling and returns the function of the allocation
// site (innermost non-runtime frame) that allocated the most bytes during the call.
func AttributeAlloc(fn func()) string {
	site := "unattributed"
	for try := 0; try < 4; try++ {
		site = attributeAllocOnce(fn)
		if site != "unattributed" && site != "unknown" {
			break
		}
	}
	return site
}

func attributeAllocOnce(fn func()) string {
	old := runtime.MemProfileRate
	runtime.MemProfileRate = 1
	defer func() { runtime.MemProfileRate = old }()
	snap := func() map[[32]uintptr]int64 {
		runtime.GC()
		runtime.GC()
		runtime.GC()
		n, _ := runtime.MemProfile(nil, true)
		recs := make([]runtime.MemProfileRecord, n+200)
		n, ok := runtime.MemProfile(recs, true)
		if !ok {
			return nil
		}
		m := map[[32]uintptr]int64{}
		for _, r := range recs[:n] {
			if r.Stack0[0] == 0 {
				continue // runtime-internal record without a stack
			}
			m[r.Stack0] += r.AllocBytes
		}
		return m
	}
	before := snap()
	func() {
		defer func() { _ = recover() }()
		fn()
	}()
	after := snap()
	var best [32]uintptr
	var bestDelta int64
	for k, v := range after {
		d := v - before[k]
		if d > bestDelta {
			n := 0
			for n < len(k) && k[n] != 0 {
				n++
			}
			if siteFromPCs(k[:n]) == "unknown" {
				continue // the harness's own allocations
			}
			bestDelta, best = d, k
		}
	}
	if bestDelta == 0 {
		return "unattributed"
	}
	n := 0
	for n < len(best) && best[n] != 0 {
		n++
	}
	return siteFromPCs(best[:n])
}

// HostileModerate is the pass-1 replacement (count 65535): large enough to exceed the bound for
// any proportional-to-claim allocation, small enough never to exhaust memory.
var HostileModerate = []byte{0xfd, 0xff, 0xff}

// HostileExtreme are the pass-2 replacements (only used at offsets that stayed within the bound in
// pass 1): 0x00, 0xfc, 2^32-1, 2^32, 2^63, 2^64-1.
var HostileExtreme = [][]byte{
	{0x00},
	{0xfc},
	{0xfe, 0xff, 0xff, 0xff, 0xff},
	{0xff, 0x00, 0x00, 0x00, 0x00, 0x01, 0x00, 0x00, 0x00},
	{0xff, 0x00, 0x00, 0x00, 0x00, 0x00, 0x00, 0x00, 0x80},
	{0xff, 0xff, 0xff, 0xff, 0xff, 0xff, 0xff, 0xff, 0xff},
}

// Splice returns b with the single byte at offset i replaced by repl.
func Splice(b []byte, i int, repl []byte) []byte {
	out := make([]byte, 0, len(b)+len(repl))
	out = append(out, b[:i]...)
	out = append(out, repl...)
	out = append(out, b[i+1:]...)
	return out
}

// Journal records the input about to be decoded so that a fatal (non-recoverable) runtime error can
// be attributed by the driver: the last line of the journal is the killer.
type Journal struct{ f *os.File }

// OpenJournal opens VERIF_OUT/journal-<name>.txt (no-op journal if VERIF_OUT is unset).
func OpenJournal(name string) *Journal {
	dir := os.Getenv("VERIF_OUT")
	if dir == "" {
		return &Journal{}
	}
	f, err := os.OpenFile(filepath.Join(dir, "journal-"+name+".txt"), os.O_CREATE|os.O_WRONLY|os.O_TRUNC, 0o644)
	if err != nil {
		return &Journal{}
	}
	return &Journal{f: f}
}

// Note overwrites the journal with the current input description.
func (j *Journal) Note(s string) {
	if j.f == nil {
		return
	}
	_, _ = j.f.WriteAt([]byte(fmt.Sprintf("%-8d\n%s\n", len(s), s)), 0)
}

// Done marks normal completion.
func (j *Journal) Done() {
	if j.f == nil {
		return
	}
	_ = j.f.Truncate(0)
	_, _ = j.f.WriteAt([]byte("DONE\n"), 0)
	_ = j.f.Close()
}

// SiteKey maps a function name to the granularity used in finding keys: functions of
// tokenized/spynode keep their full name; anything else (dependencies, standard library) is
// reduced to "dep:<package path>" because it cannot be repaired in spynode.
func SiteKey(site string) string {
	if strings.HasPrefix(site, "github.com/tokenized/spynode/") || site == "unknown" || site == "unattributed" {
		return site
	}
	pkg := site
	slash := strings.LastIndex(pkg, "/")
	if dot := strings.Index(pkg[slash+1:], "."); dot >= 0 {
		pkg = pkg[:slash+1+dot]
	}
	return "dep:" + pkg
}

// QuietAlloc measures the bytes allocated by f in a process that may allocate elsewhere at the same
// time (a native fuzz worker): when the first measurement is above limit it is repeated and the
// smallest value counts, since foreign allocations come and go and f's own are there every time.
func QuietAlloc(limit uint64, f func()) uint64 {
	var best uint64
	for i := 0; i < 4; i++ {
		var before, after runtime.MemStats
		runtime.ReadMemStats(&before)
		f()
		runtime.ReadMemStats(&after)
		a := after.TotalAlloc - before.TotalAlloc
		if i == 0 || a < best {
			best = a
		}
		if best <= limit {
			break
		}
	}
	return best
}
