package verifkit

import (
	"bytes"
	"crypto/sha256"
	"encoding/binary"
	"fmt"

	"github.com/tokenized/pkg/bitcoin"
	"github.com/tokenized/pkg/wire"
)

// MerkleBranch computes, independently of the code under test, the Bitcoin merkle root of txids
// and the sibling path of index: path = sibling hashes bottom-up where a real sibling exists,
// dupLayers = 1-based layers at which the node is paired with itself.
func MerkleBranch(txids []bitcoin.Hash32, index int) (root bitcoin.Hash32, path []bitcoin.Hash32, dupLayers []uint64) {
	level := append([]bitcoin.Hash32{}, txids...)
	layer := uint64(1)
	idx := index
	for len(level) > 1 {
		dupHere := false
		if len(level)%2 == 1 {
			if idx == len(level)-1 {
				dupLayers = append(dupLayers, layer)
				dupHere = true
			}
			level = append(level, level[len(level)-1])
		}
		if !dupHere {
			path = append(path, level[idx^1])
		}
		next := make([]bitcoin.Hash32, 0, len(level)/2)
		for i := 0; i < len(level); i += 2 {
			var b [64]byte
			copy(b[:32], level[i][:])
			copy(b[32:], level[i+1][:])
			h := sha256.Sum256(b[:])
			next = append(next, bitcoin.Hash32(sha256.Sum256(h[:])))
		}
		level = next
		idx /= 2
		layer++
	}
	return level[0], path, dupLayers
}

// VerifyBranch is the harness's own verifier of a (path, dupLayers) proof: returns the root it
// leads to, or false if the proof is malformed (left node claimed as duplicate, leftovers).
func VerifyBranch(txid bitcoin.Hash32, index uint64, path []bitcoin.Hash32, dupLayers []uint64) (bitcoin.Hash32, bool) {
	hash := txid
	layer := uint64(1)
	for len(path) > 0 || len(dupLayers) > 0 {
		var other bitcoin.Hash32
		if len(dupLayers) > 0 && dupLayers[0] == layer {
			if index%2 != 0 {
				return hash, false // only a left node can be paired with itself
			}
			other = hash
			dupLayers = dupLayers[1:]
		} else {
			if len(path) == 0 {
				return hash, false // duplicate markers that never apply
			}
			other = path[0]
			path = path[1:]
		}
		var b [64]byte
		if index%2 == 0 {
			copy(b[:32], hash[:])
			copy(b[32:], other[:])
		} else {
			copy(b[:32], other[:])
			copy(b[32:], hash[:])
		}
		h := sha256.Sum256(b[:])
		hash = sha256.Sum256(h[:])
		index /= 2
		layer++
	}
	return hash, true
}

// TBlock is a block of a generated tree.
type TBlock struct {
	Name   string
	Parent *TBlock
	Height int
	Header wire.BlockHeader
	Txs    []*wire.MsgTx // Txs[0] is the coinbase
	Hash   bitcoin.Hash32
}

// Tree is a block tree rooted at a given genesis header.
type Tree struct {
	Genesis *TBlock
	ByName  map[string]*TBlock
	ByHash  map[bitcoin.Hash32]*TBlock
}

// NewTree roots a tree at the given genesis header.
func NewTree(genesis wire.BlockHeader) *Tree {
	g := &TBlock{Name: "g", Height: 0, Header: genesis, Hash: *genesis.BlockHash()}
	return &Tree{Genesis: g, ByName: map[string]*TBlock{"g": g}, ByHash: map[bitcoin.Hash32]*TBlock{g.Hash: g}}
}

// Coinbase builds a unique coinbase transaction for a block name.
func Coinbase(name string, height int) *wire.MsgTx {
	tx := wire.NewMsgTx(1)
	var zero bitcoin.Hash32
	script := append([]byte{0x04}, make([]byte, 4)...)
	binary.LittleEndian.PutUint32(script[1:], uint32(height))
	script = append(script, byte(len(name)))
	script = append(script, []byte(name)...)
	tx.AddTxIn(wire.NewTxIn(wire.NewOutPoint(&zero, wire.MaxPrevOutIndex), script))
	tx.AddTxOut(wire.NewTxOut(5000000000, []byte{0x51}))
	return tx
}

// Add appends a block named name on parent with the given non-coinbase transactions.
func (t *Tree) Add(parent *TBlock, name string, txs []*wire.MsgTx) *TBlock {
	if b, ok := t.ByName[name]; ok {
		return b
	}
	b := &TBlock{Name: name, Parent: parent, Height: parent.Height + 1}
	b.Txs = append([]*wire.MsgTx{Coinbase(name, b.Height)}, txs...)
	b.Header = wire.BlockHeader{Version: 1, PrevBlock: parent.Hash, Timestamp: uint32(1600000000 + b.Height*600), Bits: 0x1d00ffff}
	sum := sha256.Sum256([]byte(name))
	b.Header.Nonce = binary.LittleEndian.Uint32(sum[:4])
	b.Header.MerkleRoot = b.MerkleRoot()
	b.Hash = *b.Header.BlockHash()
	t.ByName[name] = b
	t.ByHash[b.Hash] = b
	return b
}

// TxIDs lists the block's txids in order.
func (b *TBlock) TxIDs() []bitcoin.Hash32 {
	out := make([]bitcoin.Hash32, len(b.Txs))
	for i, tx := range b.Txs {
		out[i] = *tx.TxHash()
	}
	return out
}

// MerkleRoot computes the root with the harness's own implementation.
func (b *TBlock) MerkleRoot() bitcoin.Hash32 {
	root, _, _ := MerkleBranch(b.TxIDs(), 0)
	return root
}

// Msg returns the block as a wire.MsgBlock (fresh copy: blocks carry a read cursor).
func (b *TBlock) Msg() *wire.MsgBlock {
	m := wire.NewMsgBlock(&b.Header)
	for _, tx := range b.Txs {
		_ = m.AddTransaction(tx)
	}
	return m
}

// MsgWithTxs returns a block message with this header but another transaction list.
func (b *TBlock) MsgWithTxs(txs []*wire.MsgTx) *wire.MsgBlock {
	m := wire.NewMsgBlock(&b.Header)
	for _, tx := range txs {
		_ = m.AddTransaction(tx)
	}
	return m
}

// ParseMsg converts a block message to the streaming form used on real connections.
func ParseMsg(m *wire.MsgBlock) (*wire.MsgParseBlock, error) {
	if len(m.Transactions) == 0 {
		// the dependency's streaming decoder recurses forever on a block without transactions; spynode
		// never builds that form itself (it reads MsgBlock), so the harness must not either
		return nil, fmt.Errorf("no transactions")
	}
	var buf bytes.Buffer
	if err := m.BtcEncode(&buf, wire.ProtocolVersion); err != nil {
		return nil, err
	}
	p := &wire.MsgParseBlock{}
	if err := p.BtcDecode(&buf, wire.ProtocolVersion); err != nil {
		return nil, err
	}
	return p, nil
}

// Path returns the blocks from genesis to b inclusive.
func (b *TBlock) Path() []*TBlock {
	var rev []*TBlock
	for x := b; x != nil; x = x.Parent {
		rev = append(rev, x)
	}
	out := make([]*TBlock, len(rev))
	for i := range rev {
		out[len(rev)-1-i] = rev[i]
	}
	return out
}

// OnPath reports whether x is an ancestor of (or equal to) b.
func (b *TBlock) OnPath(x *TBlock) bool {
	for y := b; y != nil; y = y.Parent {
		if y == x {
			return true
		}
	}
	return false
}

// ForkPoint returns the last common block of the paths to a and b.
func ForkPoint(a, b *TBlock) *TBlock {
	for a.Height > b.Height {
		a = a.Parent
	}
	for b.Height > a.Height {
		b = b.Parent
	}
	for a != b {
		a, b = a.Parent, b.Parent
	}
	return a
}

// ChainName formats "prefix+height".
func ChainName(prefix string, height int) string { return fmt.Sprintf("%s%d", prefix, height) }
