// Package verifkit is the shared harness kit injected into tokenized/spynode by the /verif driver
// (overlay; build tag verif). It must not import any spynode package (in-package tests import it).
package verifkit

import (
	"crypto/sha256"
	"encoding/binary"
	"encoding/json"
	"fmt"
	"os"
	"path/filepath"
	"sort"
	"strings"
	"sync"
	"testing"
	"time"
)

// Violation is one property violation found by a check, keyed by root cause.
type Violation struct {
	Key    string `json:"key"`    // root-cause key, e.g. C13/pending-size/duplicate-delivery
	What   string `json:"what"`   // human description
	Replay string `json:"replay"` // file name (inside VERIF_OUT) of the replay scenario
}

// Report accumulates what one test function covered and is flushed as JSON for the driver.
type Report struct {
	mu         sync.Mutex
	Property   string            `json:"property"`
	Test       string            `json:"test"`
	Evals      int               `json:"evaluations"`
	Nontrivial map[uint64]bool   `json:"-"`
	NTHashes   []uint64          `json:"nontrivial_hashes"`
	Labels     map[string]int    `json:"labels"`
	Samples    []interface{}     `json:"samples"`
	Violations []Violation       `json:"violations"`
	Excluded   map[string]int    `json:"excluded"`
	Notes      map[string]string `json:"notes"`
	Exhaustive bool              `json:"exhaustive"`
	Rule       string            `json:"rule"`
	WallS      float64           `json:"wall_s"`
	maxSamples int
	start      time.Time
	lastFail   *failRec
}

type failRec struct {
	key, what string
	scenario  interface{}
}

// NewReport starts a report for one test function.
func NewReport(property, test, rule string) *Report {
	return &Report{Property: property, Test: test, Rule: rule, Nontrivial: map[uint64]bool{},
		Labels: map[string]int{}, Excluded: map[string]int{}, Notes: map[string]string{},
		maxSamples: 4, start: time.Now()}
}

// Hash returns a 64-bit hash of any JSON-serialisable value (used for distinctness).
func Hash(v interface{}) uint64 {
	b, err := json.Marshal(v)
	if err != nil {
		b = []byte(fmt.Sprintf("%#v", v))
	}
	s := sha256.Sum256(b)
	return binary.LittleEndian.Uint64(s[:8])
}

// HashBytes hashes raw bytes.
func HashBytes(b []byte) uint64 {
	s := sha256.Sum256(b)
	return binary.LittleEndian.Uint64(s[:8])
}

// Case records one evaluated case. hash identifies it; nontrivial per the check's stated rule.
func (r *Report) Case(hash uint64, nontrivial bool, labels ...string) {
	r.mu.Lock()
	defer r.mu.Unlock()
	r.Evals++
	if nontrivial {
		r.Nontrivial[hash] = true
	}
	for _, l := range labels {
		r.Labels[l]++
	}
}

// Label bumps a counter without counting a case.
func (r *Report) Label(l string, n int) {
	r.mu.Lock()
	defer r.mu.Unlock()
	r.Labels[l] += n
}

// Exclude counts a case (or sub-assertion) excluded because of a known finding.
func (r *Report) Exclude(key string) {
	r.mu.Lock()
	defer r.mu.Unlock()
	r.Excluded[key]++
}

// Sample keeps up to a few sample cases (preferring the first non-trivial ones).
func (r *Report) Sample(v interface{}) {
	r.mu.Lock()
	defer r.mu.Unlock()
	if len(r.Samples) < r.maxSamples {
		r.Samples = append(r.Samples, v)
	}
}

// WantSample says whether another sample is wanted.
func (r *Report) WantSample() bool {
	r.mu.Lock()
	defer r.mu.Unlock()
	return len(r.Samples) < r.maxSamples
}

// Fail remembers a failing scenario (the last one remembered is the shrunk one under rapid).
func (r *Report) Fail(key, what string, scenario interface{}) {
	r.mu.Lock()
	defer r.mu.Unlock()
	r.lastFail = &failRec{key: key, what: what, scenario: scenario}
}

// ClearFail forgets the remembered failure (call at the start of every evaluated case).
func (r *Report) ClearFail() {
	r.mu.Lock()
	defer r.mu.Unlock()
	r.lastFail = nil
}

// CommitFail turns the remembered failure into a violation with a replay file.
func (r *Report) CommitFail() {
	r.mu.Lock()
	f := r.lastFail
	r.lastFail = nil
	r.mu.Unlock()
	if f != nil {
		r.AddViolation(f.key, f.what, f.scenario)
	}
}

// AddViolation records a violation immediately and writes its replay file.
func (r *Report) AddViolation(key, what string, scenario interface{}) {
	name := ""
	if dir := os.Getenv("VERIF_OUT"); dir != "" {
		b, _ := json.MarshalIndent(map[string]interface{}{"property": r.Property, "test": r.Test,
			"key": key, "what": what, "scenario": scenario}, "", " ")
		s := sha256.Sum256(b)
		name = fmt.Sprintf("replay-%s-%x.json", r.Test, s[:6])
		_ = os.WriteFile(filepath.Join(dir, name), b, 0o644)
	}
	r.mu.Lock()
	defer r.mu.Unlock()
	for _, v := range r.Violations {
		if v.Key == key {
			return // one witness per root cause
		}
	}
	r.Violations = append(r.Violations, Violation{Key: key, What: what, Replay: name})
}

// Flush writes the report for the driver.
func (r *Report) Flush() {
	r.mu.Lock()
	defer r.mu.Unlock()
	r.WallS = time.Since(r.start).Seconds()
	r.NTHashes = r.NTHashes[:0]
	for h := range r.Nontrivial {
		r.NTHashes = append(r.NTHashes, h)
	}
	sort.Slice(r.NTHashes, func(i, j int) bool { return r.NTHashes[i] < r.NTHashes[j] })
	dir := os.Getenv("VERIF_OUT")
	if dir == "" {
		return
	}
	b, _ := json.Marshal(r)
	_ = os.WriteFile(filepath.Join(dir, "report-"+r.Test+".json"), b, 0o644)
}

// Finish is deferred by test functions: commits a remembered failure and flushes.
func (r *Report) Finish(t *testing.T) {
	r.CommitFail()
	r.Flush()
}

// Known reports whether the finding key is listed as known (driver passes VERIF_KNOWN).
func Known(key string) bool {
	for _, k := range strings.Split(os.Getenv("VERIF_KNOWN"), ",") {
		if k != "" && k == key {
			return true
		}
	}
	return false
}

// Tier returns "quick" or "thorough".
func Tier() string {
	if os.Getenv("VERIF_TIER") == "thorough" {
		return "thorough"
	}
	return "quick"
}

// ReplayFile returns the replay file to execute instead of generating, if any, for this test.
func ReplayFile(test string) string {
	f := os.Getenv("VERIF_REPLAY")
	if f == "" {
		return ""
	}
	if only := os.Getenv("VERIF_REPLAY_TEST"); only != "" && only != test {
		return ""
	}
	return f
}

// LoadReplay reads a replay file and decodes its scenario into out. Returns the recorded test name.
func LoadReplay(path string, out interface{}) (string, string, error) {
	b, err := os.ReadFile(path)
	if err != nil {
		return "", "", err
	}
	var env struct {
		Test     string          `json:"test"`
		Key      string          `json:"key"`
		Scenario json.RawMessage `json:"scenario"`
	}
	if err := json.Unmarshal(b, &env); err != nil {
		return "", "", err
	}
	if err := json.Unmarshal(env.Scenario, out); err != nil {
		return env.Test, env.Key, err
	}
	return env.Test, env.Key, nil
}

// RegressionFiles lists committed replay files for a test (VERIF_REGRESS_DIR/<test>-*.json).
func RegressionFiles(test string) []string {
	dir := os.Getenv("VERIF_REGRESS_DIR")
	if dir == "" {
		return nil
	}
	m, _ := filepath.Glob(filepath.Join(dir, test+"-*.json"))
	sort.Strings(m)
	return m
}
