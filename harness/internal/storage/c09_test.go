//go:build verif

package storage

// C09 — Block store queries stay consistent across add, revert, save and reload.

import (
	"context"
	"fmt"
	"sync"
	"testing"
	"time"

	"github.com/tokenized/pkg/bitcoin"
	"github.com/tokenized/pkg/wire"
	"github.com/tokenized/spynode/internal/platform/config"
	"github.com/tokenized/spynode/internal/verifkit"

	"pgregory.net/rapid"
)

// C09Op is one operation of a C09 scenario.
type C09Op struct {
	Op string `json:"op"` // add until revert save savereload query fault-revert window-revert
	N  int    `json:"n"`  // add: count; until/revert: height; fault-revert/window-revert: target height
	F  int    `json:"f"`  // fault-revert: the F-th storage operation of kind K (within the revert) fails
	// window-revert: while the revert is inside its F-th storage operation, a second goroutine
	// calls K (add | hash | save) on the same repository
	K string `json:"k,omitempty"`
}

// C09Scenario is a full scenario.
type C09Scenario struct {
	RemoveMissingOK bool    `json:"remove_missing_ok"`
	Ops             []C09Op `json:"ops"`
}

type c09Violation struct{ key, what string }

func c09Header(prev bitcoin.Hash32, n int) wire.BlockHeader {
	h := wire.BlockHeader{Version: 1, PrevBlock: prev, Timestamp: uint32(1600000000 + n), Bits: 0x1d00ffff, Nonce: uint32(n)}
	h.MerkleRoot[0] = byte(n)
	h.MerkleRoot[1] = byte(n >> 8)
	h.MerkleRoot[2] = byte(n >> 16)
	return h
}

type c09World struct {
	ctx     context.Context
	st      *verifkit.MemStore
	repo    *BlockRepository
	model   []wire.BlockHeader      // index = height
	ever    map[bitcoin.Hash32]bool // every hash ever added
	counter int
	flags   map[string]bool
}

func (w *c09World) tip() int { return len(w.model) - 1 }

func (w *c09World) check(where string, heights []int) *c09Violation {
	repo, ctx := w.repo, w.ctx
	tip := w.tip()
	if got := repo.LastHeight(); got != tip {
		return &c09Violation{"C09/query/last-height", fmt.Sprintf("%s: LastHeight=%d, list has tip %d", where, got, tip)}
	}
	if got := repo.LastHash(); got == nil || *got != *w.model[tip].BlockHash() {
		return &c09Violation{"C09/query/last-hash", fmt.Sprintf("%s: LastHash differs from the list's tip at %d", where, tip)}
	}
	hs := append([]int{0, tip, tip - 1, 1}, heights...)
	for _, b := range []int{998, 999, 1000, 1001, 1998, 1999, 2000, 2001, 2999, 3000} {
		hs = append(hs, b)
	}
	for _, h := range hs {
		if h < 0 || h > tip {
			continue
		}
		want := w.model[h]
		gh, err := repo.Hash(ctx, h)
		if err != nil || gh == nil || *gh != *want.BlockHash() {
			return &c09Violation{"C09/query/hash", fmt.Sprintf("%s: Hash(%d) err=%v differs from list (tip %d)", where, h, err, tip)}
		}
		ghd, err := repo.Header(ctx, h)
		if err != nil || ghd == nil || *ghd.BlockHash() != *want.BlockHash() {
			return &c09Violation{"C09/query/header", fmt.Sprintf("%s: Header(%d) err=%v differs from list (tip %d)", where, h, err, tip)}
		}
		gt, err := repo.Time(ctx, h)
		if err != nil || gt != want.Timestamp {
			return &c09Violation{"C09/query/time", fmt.Sprintf("%s: Time(%d)=%d err=%v, list says %d", where, h, gt, err, want.Timestamp)}
		}
		gi, ok := repo.Height(want.BlockHash())
		if !ok || gi != h || !repo.Contains(want.BlockHash()) {
			return &c09Violation{"C09/query/height-of-hash", fmt.Sprintf("%s: Height(hash@%d)=(%d,%v) Contains=%v", where, h, gi, ok, repo.Contains(want.BlockHash()))}
		}
	}
	// documented -1 => tip
	if hd, err := repo.Header(ctx, -1); err != nil || hd == nil || *hd.BlockHash() != *w.model[tip].BlockHash() {
		return &c09Violation{"C09/query/header-minus-one", fmt.Sprintf("%s: Header(-1) err=%v is not the tip", where, err)}
	}
	// beyond the tip and below zero: error or empty, never a crash, never a header
	for _, h := range []int{tip + 1, tip + 1000, -2, -5, -1000, -1001} {
		v := c09Guard(func() *c09Violation {
			if gh, err := repo.Hash(ctx, h); err == nil && gh != nil {
				return &c09Violation{"C09/query/out-of-range-value", fmt.Sprintf("%s: Hash(%d) returned a hash with tip %d", where, h, tip)}
			}
			if h != -1 {
				if hd, err := repo.Header(ctx, h); err == nil && hd != nil {
					return &c09Violation{"C09/query/out-of-range-value", fmt.Sprintf("%s: Header(%d) returned a header with tip %d", where, h, tip)}
				}
			}
			if tm, err := repo.Time(ctx, h); err == nil && tm != 0 {
				return &c09Violation{"C09/query/out-of-range-value", fmt.Sprintf("%s: Time(%d)=%d with tip %d", where, h, tm, tip)}
			}
			return nil
		}, fmt.Sprintf("%s: query at height %d (tip %d)", where, h, tip))
		if v != nil {
			return v
		}
	}
	// hashes ever added but no longer in the list must be absent
	onList := map[bitcoin.Hash32]bool{}
	for i := range w.model {
		onList[*w.model[i].BlockHash()] = true
	}
	n := 0
	for h := range w.ever {
		if onList[h] {
			continue
		}
		hh := h
		if _, ok := repo.Height(&hh); ok || repo.Contains(&hh) {
			return &c09Violation{"C09/query/reverted-hash-present", fmt.Sprintf("%s: a reverted hash is still known by hash (tip %d)", where, tip)}
		}
		n++
		if n > 60 {
			break
		}
	}
	return nil
}

func c09Guard(fn func() *c09Violation, what string) (v *c09Violation) {
	defer func() {
		if r := recover(); r != nil {
			v = &c09Violation{"C09/query/panic", fmt.Sprintf("%s panicked: %v", what, r)}
		}
	}()
	return fn()
}

func (w *c09World) add(n int) *c09Violation {
	for i := 0; i < n; i++ {
		w.counter++
		h := c09Header(*w.model[w.tip()].BlockHash(), w.counter)
		if err := w.repo.Add(w.ctx, &h); err != nil {
			return &c09Violation{"C09/add/error", fmt.Sprintf("Add at height %d failed: %v", w.tip()+1, err)}
		}
		w.model = append(w.model, h)
		w.ever[*h.BlockHash()] = true
	}
	return nil
}

func c09Run(sc *C09Scenario) (*c09Violation, map[string]bool) {
	ctx := quietCtx()
	w := &c09World{ctx: ctx, st: verifkit.NewMemStore(sc.RemoveMissingOK), ever: map[bitcoin.Hash32]bool{}, flags: map[string]bool{}}
	cfg := config.Config{Net: bitcoin.MainNet}
	w.repo = NewBlockRepository(cfg, w.st)
	if err := w.repo.Load(ctx); err != nil {
		return &c09Violation{"C09/load/empty", err.Error()}, w.flags
	}
	gh, err := w.repo.Header(ctx, 0)
	if err != nil {
		return &c09Violation{"C09/load/genesis", err.Error()}, w.flags
	}
	w.model = []wire.BlockHeader{*gh}
	w.ever[*gh.BlockHash()] = true
	saved := false // whether the newest file content has been saved since the last add
	for step, op := range sc.Ops {
		where := fmt.Sprintf("step %d %+v", step, op)
		switch op.Op {
		case "add":
			if v := w.add(op.N); v != nil {
				return v, w.flags
			}
			if op.N > 0 {
				saved = false
			}
		case "until":
			if op.N > w.tip() {
				if v := w.add(op.N - w.tip()); v != nil {
					return v, w.flags
				}
				saved = false
			}
		case "save":
			if err := w.repo.Save(ctx); err != nil {
				return &c09Violation{"C09/save/error", where + ": " + err.Error()}, w.flags
			}
			saved = true
		case "savereload":
			if err := w.repo.Save(ctx); err != nil {
				return &c09Violation{"C09/save/error", where + ": " + err.Error()}, w.flags
			}
			saved = true
			fresh := NewBlockRepository(cfg, w.st)
			if err := fresh.Load(ctx); err != nil {
				return &c09Violation{"C09/reload/error", fmt.Sprintf("%s: Load after Save failed at tip %d: %v", where, w.tip(), err)}, w.flags
			}
			w.repo = fresh
			w.flags["reload"] = true
			if w.tip() >= 1000 {
				w.flags["reload-multifile"] = true
			}
		case "window-revert":
			v, nowSaved := w.windowRevert(op, where, saved)
			if v != nil {
				return v, w.flags
			}
			saved = nowSaved
			continue
		case "revert", "fault-revert":
			t := op.N
			before := w.tip()
			if t > before {
				w.flags["revert-above-tip"] = true
			}
			if t <= before && t/1000 != before/1000 {
				w.flags["revert-across-file"] = true
			}
			if t <= before && !saved {
				w.flags["revert-unsaved"] = true
			}
			if op.Op == "fault-revert" {
				w.st.ArmKindFault(op.K, op.F)
				w.st.StartLog()
			}
			var rerr error
			v := c09Guard(func() *c09Violation { rerr = w.repo.Revert(ctx, t); return nil }, where+": Revert")
			w.st.Disarm()
			if v != nil {
				return v, w.flags
			}
			if t < 0 {
				// negative target: must fail or be a no-op; end the scenario
				return nil, w.flags
			}
			if rerr == nil {
				if t > before {
					return &c09Violation{"C09/revert/above-tip-accepted", fmt.Sprintf("%s: Revert(%d) above tip %d returned nil", where, t, before)}, w.flags
				}
				w.model = w.model[:t+1]
				saved = true // Revert rewrites the newest file
			} else {
				w.flags["revert-failed"] = true
				if w.st.FailHit {
					w.flags["revert-failed-injected"] = true
				}
				// a failed revert must leave the store unchanged: model stays
				if cv := w.check(where+" (after failed Revert: "+rerr.Error()+")", nil); cv != nil {
					key := "C09/revert-failed/" + cv.key[len("C09/"):]
					if w.st.FailHit {
						key = "C09/revert-failed-injected/" + cv.key[len("C09/"):]
						for _, m := range w.st.Log {
							if m.Op == "remove" {
								// whole files had already been deleted when the injected fault hit
								key = "C09/revert-failed-injected/partial-multi-file"
							}
						}
					}
					return &c09Violation{key, cv.what}, w.flags
				}
				if w.st.FailHit {
					return nil, w.flags // storage and memory may legitimately differ now; stop here
				}
			}
		}
		if v := w.check(where, []int{op.N, op.N + 1, op.N - 1, w.tip() / 2}); v != nil {
			return v, w.flags
		}
	}
	return nil, w.flags
}

// c09WindowWait is how long the revert is held inside a storage operation to give the second
// goroutine the chance to run. It only bounds how long a wrongly unlocked repository has to show
// itself; on a repository that holds its lock the second goroutine simply runs after the revert.
const c09WindowWait = 40 * time.Millisecond

// windowRevert runs Revert(op.N) and, while the revert is inside its op.F-th storage operation,
// lets a second goroutine call Add / Hash / Save on the same repository. The repository's
// operations are atomic towards each other, so the outcome has to be that of one of the two serial
// orders; every query is then compared with the list of that order.
func (w *c09World) windowRevert(op C09Op, where string, saved bool) (*c09Violation, bool) {
	t, before := op.N, w.tip()
	if t > before {
		t = before
	}
	if t < 0 {
		t = 0
	}
	w.flags["window"] = true
	if t/1000 != before/1000 {
		w.flags["revert-across-file"] = true
		w.flags["window-across-file"] = true
	}
	if !saved {
		w.flags["revert-unsaved"] = true
	}
	w.counter++
	x := c09Header(*w.model[before].BlockHash(), w.counter)
	rctx := context.WithValue(w.ctx, verifkit.RoleKey, "revert")
	octx := context.WithValue(w.ctx, verifkit.RoleKey, "other")
	type result struct {
		err  error
		hash *bitcoin.Hash32
		pan  interface{}
	}
	done := make(chan result, 1)
	other := func() {
		var r result
		defer func() {
			if p := recover(); p != nil {
				r.pan = p
			}
			done <- r
		}()
		switch op.K {
		case "hash":
			r.hash, r.err = w.repo.Hash(octx, t)
		case "save":
			r.err = w.repo.Save(octx)
		default:
			r.err = w.repo.Add(octx, &x)
		}
	}
	var mu sync.Mutex
	cnt, started, inside := 0, false, false
	var early *result
	w.st.SetGate(func(c context.Context, o, key string) {
		if r, _ := c.Value(verifkit.RoleKey).(string); r != "revert" {
			return
		}
		mu.Lock()
		cnt++
		fire := cnt == op.F && !started
		if fire {
			started = true
		}
		mu.Unlock()
		if !fire {
			return
		}
		go other()
		select {
		case r := <-done:
			early, inside = &r, true
		case <-time.After(c09WindowWait):
		}
	})
	var rerr error
	v := c09Guard(func() *c09Violation { rerr = w.repo.Revert(rctx, t); return nil }, where+": Revert")
	w.st.SetGate(nil)
	if v != nil {
		return v, saved
	}
	if !started {
		go other() // the revert had fewer storage operations: plain serial order
	} else {
		w.flags["window-reached"] = true
	}
	var r result
	if early != nil {
		r = *early
	} else {
		select {
		case r = <-done:
		case <-time.After(60 * time.Second):
			return &c09Violation{"C09/window/hang", fmt.Sprintf("%s: %s called during Revert(%d) did not return", where, op.K, t)}, saved
		}
	}
	if inside {
		w.flags["window-ran-inside"] = true
	}
	if r.pan != nil {
		return &c09Violation{"C09/window/panic", fmt.Sprintf("%s: %s called during Revert(%d) panicked: %v", where, op.K, t, r.pan)}, saved
	}
	base := w.model
	if rerr == nil {
		base = w.model[:t+1]
		saved = true
	} else {
		w.flags["revert-failed"] = true
	}
	var cands [][]wire.BlockHeader
	switch op.K {
	case "hash":
		if r.err != nil || r.hash == nil || *r.hash != *w.model[t].BlockHash() {
			return &c09Violation{"C09/window/hash", fmt.Sprintf("%s: Hash(%d) called during Revert(%d) from tip %d: err=%v or a hash that is not the list's", where, t, t, before, r.err)}, saved
		}
		cands = append(cands, base)
	case "save":
		if r.err != nil {
			return &c09Violation{"C09/window/save", fmt.Sprintf("%s: Save called during Revert(%d) from tip %d failed: %v", where, t, before, r.err)}, saved
		}
		cands = append(cands, base)
	default:
		w.ever[*x.BlockHash()] = true
		follows := *base[len(base)-1].BlockHash() == x.PrevBlock
		if r.err == nil {
			saved = false
			if follows { // revert, then add
				cands = append(cands, append(append([]wire.BlockHeader{}, base...), x))
			}
			if rerr == nil { // add, then revert
				cands = append(cands, base)
			}
		} else {
			if follows {
				return &c09Violation{"C09/window/add-refused", fmt.Sprintf("%s: Add of the header following the tip, called during Revert(%d) from tip %d, failed: %v", where, t, before, r.err)}, saved
			}
			cands = append(cands, base)
		}
	}
	var first *c09Violation
	for _, c := range cands {
		w.model = c
		cv := w.check(fmt.Sprintf("%s (%s called during the revert's storage operation %d; revert err=%v, %s err=%v)", where, op.K, op.F, rerr, op.K, r.err), []int{t, t + 1, t - 1, before})
		if cv == nil {
			return nil, saved
		}
		if first == nil {
			first = cv
		}
	}
	return &c09Violation{"C09/window/" + first.key[len("C09/"):], first.what}, saved
}

func c09Nontrivial(f map[string]bool) bool { return f["revert-across-file"] || f["revert-unsaved"] }

const c09Rule = "operation sequences over {add k, add-until boundary height, revert(t), save, save+reload, revert with the f-th storage operation failing, revert with a second goroutine calling add|hash|save while the revert is held in its f-th storage operation (outcome must be that of one of the two serial orders)} on a BlockRepository over an in-memory store, both behaviours for deleting a missing key; heights concentrated on 0, 1000k-1, 1000k, 1000k+1 and the tip; after every operation all queries are compared with a Go slice of headers; non-trivial = contains a revert across a file boundary or on an unsaved newest file; distinct by scenario hash"

func genC09(t *rapid.T) *C09Scenario {
	sc := &C09Scenario{RemoveMissingOK: rapid.Bool().Draw(t, "rmok")}
	bounds := []int{0, 1, 2, 998, 999, 1000, 1001, 1002, 1998, 1999, 2000, 2001, 2002}
	n := rapid.IntRange(1, 14).Draw(t, "n")
	tip := 0
	for i := 0; i < n; i++ {
		kind := rapid.SampledFrom([]string{"add", "add", "until", "until", "revert", "revert", "revert", "save", "savereload", "savereload", "fault-revert", "window-revert"}).Draw(t, "op")
		op := C09Op{Op: kind}
		switch kind {
		case "add":
			op.N = rapid.SampledFrom([]int{1, 1, 2, 3, 7, 50}).Draw(t, "k")
			tip += op.N
		case "until":
			op.N = rapid.SampledFrom(bounds).Draw(t, "h")
			if op.N > tip {
				tip = op.N
			}
		case "revert", "fault-revert", "window-revert":
			switch rapid.IntRange(0, 5).Draw(t, "tk") {
			case 0:
				op.N = tip
			case 1:
				op.N = tip - 1
			case 2:
				op.N = rapid.SampledFrom(bounds).Draw(t, "tb")
			case 3:
				op.N = rapid.IntRange(0, tip+1).Draw(t, "tr")
			case 4:
				op.N = tip + rapid.IntRange(1, 3).Draw(t, "ta")
			default:
				op.N = tip - rapid.IntRange(0, 1100).Draw(t, "td")
			}
			if op.N < 0 {
				op.N = 0
			}
			if kind == "fault-revert" {
				op.K = rapid.SampledFrom([]string{"write", "write", "remove", "remove", "read"}).Draw(t, "fk")
				op.F = rapid.IntRange(1, 3).Draw(t, "f")
			}
			if kind == "window-revert" {
				if op.N > tip {
					op.N = tip
				}
				op.K = rapid.SampledFrom([]string{"add", "add", "hash", "save"}).Draw(t, "wk")
				op.F = rapid.IntRange(1, 4).Draw(t, "wf")
			}
			if op.N <= tip {
				tip = op.N // an estimate only: the run clamps targets to the real tip
			}
		}
		sc.Ops = append(sc.Ops, op)
	}
	return sc
}

func c09Labels(f map[string]bool) []string {
	var l []string
	for k, v := range f {
		if v {
			l = append(l, k)
		}
	}
	return l
}

func c09Replay(t *testing.T, rep *verifkit.Report, path string) {
	var sc C09Scenario
	if _, _, err := verifkit.LoadReplay(path, &sc); err != nil {
		t.Fatalf("replay %s: %v", path, err)
	}
	v, f := c09Run(&sc)
	rep.Case(verifkit.Hash(sc), c09Nontrivial(f), "replay")
	if v != nil {
		rep.AddViolation(v.key, v.what, sc)
		t.Errorf("replay %s: %s: %s", path, v.key, v.what)
	}
}

func TestC09Random(t *testing.T) {
	rep := verifkit.NewReport("C09", "TestC09Random", c09Rule)
	defer rep.Finish(t)
	if f := verifkit.ReplayFile("TestC09Random"); f != "" {
		c09Replay(t, rep, f)
		return
	}
	for _, f := range verifkit.RegressionFiles("TestC09Random") {
		c09Replay(t, rep, f)
	}
	rapid.Check(t, func(rt *rapid.T) {
		sc := genC09(rt)
		v, f := c09Run(sc)
		rep.Case(verifkit.Hash(sc), c09Nontrivial(f), c09Labels(f)...)
		if c09Nontrivial(f) && rep.WantSample() {
			rep.Sample(sc)
		}
		if v != nil {
			if verifkit.Known(v.key) {
				rep.Exclude(v.key)
				return
			}
			rep.Fail(v.key, v.what, sc)
			rt.Fatalf("%s: %s", v.key, v.what)
		}
	})
}

// TestC09Triples enumerates all (height before, newest file saved?, revert target) triples over
// boundary heights, for both remove-missing behaviours, each followed by save+reload and re-growth.
func TestC09Triples(t *testing.T) {
	rep := verifkit.NewReport("C09", "TestC09Triples", c09Rule+"; exhaustive sub-run: all (height, saved?, target, remove-missing behaviour) over heights {0,1,2,998..1002,1998..2002}")
	defer rep.Finish(t)
	if verifkit.ReplayFile("TestC09Triples") != "" {
		c09Replay(t, rep, verifkit.ReplayFile("TestC09Triples"))
		return
	}
	hs := []int{0, 1, 2, 998, 999, 1000, 1001, 1002, 1998, 1999, 2000, 2001, 2002}
	seen := map[string]bool{}
	n := 0
	for _, rmok := range []bool{false, true} {
		for _, h := range hs {
			for _, saved := range []bool{false, true} {
				for _, tgt := range hs {
					if tgt > h+1 {
						continue
					}
					sc := &C09Scenario{RemoveMissingOK: rmok, Ops: []C09Op{{Op: "until", N: h}}}
					if saved {
						sc.Ops = append(sc.Ops, C09Op{Op: "save"})
					}
					sc.Ops = append(sc.Ops, C09Op{Op: "revert", N: tgt}, C09Op{Op: "savereload"}, C09Op{Op: "add", N: 3}, C09Op{Op: "savereload"})
					v, f := c09Run(sc)
					n++
					rep.Case(uint64(n), c09Nontrivial(f), c09Labels(f)...)
					if c09Nontrivial(f) && rep.WantSample() && n%37 == 0 {
						rep.Sample(sc)
					}
					if v != nil && !seen[v.key] {
						if verifkit.Known(v.key) {
							rep.Exclude(v.key)
							continue
						}
						seen[v.key] = true
						rep.AddViolation(v.key, v.what, sc)
						t.Errorf("%s: %s", v.key, v.what)
					}
				}
			}
		}
	}
	rep.Exhaustive = true
}

// TestC09Window enumerates reverts with a second goroutine calling Add / Hash / Save while the
// revert is inside one of its first storage operations, over heights and targets around the file
// boundaries (a revert below the newest file reads older files while it collects the hashes it
// removes).
func TestC09Window(t *testing.T) {
	rep := verifkit.NewReport("C09", "TestC09Window", c09Rule+"; window sub-run: all (height, saved?, target, storage operation 1..3 of the revert, concurrent call add|hash|save) over heights {2,1001,1002,2001}")
	defer rep.Finish(t)
	if verifkit.ReplayFile("TestC09Window") != "" {
		c09Replay(t, rep, verifkit.ReplayFile("TestC09Window"))
		return
	}
	seen := map[string]bool{}
	n := 0
	for _, h := range []int{2, 1001, 1002, 2001} {
		for _, saved := range []bool{false, true} {
			for _, tgt := range []int{0, 998, 999, 1000, 1001, 1999, 2000, h - 1, h} {
				if tgt > h || tgt < 0 {
					continue
				}
				for f := 1; f <= 3; f++ {
					for _, k := range []string{"add", "hash", "save"} {
						sc := &C09Scenario{RemoveMissingOK: n%2 == 0, Ops: []C09Op{{Op: "until", N: h}}}
						if saved {
							sc.Ops = append(sc.Ops, C09Op{Op: "save"})
						}
						sc.Ops = append(sc.Ops, C09Op{Op: "window-revert", N: tgt, F: f, K: k}, C09Op{Op: "savereload"}, C09Op{Op: "add", N: 2})
						v, fl := c09Run(sc)
						n++
						rep.Case(uint64(n), fl["window-reached"], c09Labels(fl)...)
						if fl["window-reached"] && rep.WantSample() && n%29 == 0 {
							rep.Sample(sc)
						}
						if v != nil && !seen[v.key] {
							if verifkit.Known(v.key) {
								rep.Exclude(v.key)
								continue
							}
							seen[v.key] = true
							rep.AddViolation(v.key, v.what, sc)
							t.Errorf("%s: %s", v.key, v.what)
						}
					}
				}
			}
		}
	}
	rep.Exhaustive = true
}
