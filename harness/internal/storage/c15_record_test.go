//go:build verif

package storage

// C15 (stored transaction record) and C11(a) (unconfirmed set survives save/load).

import (
	"bytes"
	"fmt"
	"reflect"
	"testing"
	"time"

	"github.com/tokenized/pkg/bitcoin"
	"github.com/tokenized/spynode/internal/verifkit"
	"github.com/tokenized/spynode/pkg/client"

	"pgregory.net/rapid"
)

func TestC15TxRecord(t *testing.T) {
	rep := verifkit.NewReport("C15", "TestC15TxRecord", "stored tx record: generated client.Tx (tx, spent outputs sized by input count, state with optional merkle proof) saved with SaveTxState and fetched back by txid; must re-serialise to identical bytes and every strict prefix of the stored bytes must fail to load; non-trivial = has inputs or a merkle proof; distinct by record hash")
	defer rep.Finish(t)
	ctx := quietCtx()
	rapid.Check(t, func(rt *rapid.T) {
		tx := client.VerifClientTx(rt, "tx")
		st := verifkit.NewMemStore(true)
		var want bytes.Buffer
		if err := tx.Serialize(&want); err != nil {
			rt.Skip("not serialisable")
		}
		nt := len(tx.Tx.TxIn) > 0 || tx.State.MerkleProof != nil
		rep.Case(verifkit.HashBytes(want.Bytes()), nt)
		fail := func(key, what string) {
			rep.Fail(key, what, map[string]string{"record_hex": fmt.Sprintf("%x", want.Bytes())})
			rt.Fatalf("%s: %s", key, what)
		}
		if err := SaveTxState(ctx, st, tx); err != nil {
			fail("C15/record/save", err.Error())
		}
		got, err := FetchTxState(ctx, st, *tx.Tx.TxHash())
		if err != nil {
			fail("C15/record/fetch", "stored record could not be fetched by txid: "+err.Error())
		}
		var gotb bytes.Buffer
		if err := got.Serialize(&gotb); err != nil || !bytes.Equal(gotb.Bytes(), want.Bytes()) {
			fail("C15/record/roundtrip", "fetched record differs from the saved one")
		}
		if got.ID != tx.ID || !reflect.DeepEqual(got.State.Safe, tx.State.Safe) || got.State.UnSafe != tx.State.UnSafe ||
			got.State.Cancelled != tx.State.Cancelled || got.State.UnconfirmedDepth != tx.State.UnconfirmedDepth ||
			(got.State.MerkleProof == nil) != (tx.State.MerkleProof == nil) || len(got.Outputs) != len(tx.Outputs) {
			fail("C15/record/fields", "fetched record fields differ")
		}
		path := fmt.Sprintf("%s/%s", txStatePath, tx.Tx.TxHash())
		full := want.Bytes()
		for k := 0; k < len(full); k++ {
			if len(full) > 600 && k > 200 && k < len(full)-200 && k%7 != 0 {
				continue
			}
			_ = st.Write(ctx, path, full[:k], nil)
			if _, err := FetchTxState(ctx, st, *tx.Tx.TxHash()); err == nil {
				fail("C15/record/prefix-accepted", fmt.Sprintf("a record truncated to %d of %d bytes loaded without error", k, len(full)))
			}
		}
		if nt && rep.WantSample() && len(full) < 300 {
			rep.Sample(map[string]string{"record_hex": fmt.Sprintf("%x", full)})
		}
	})
}

// C11Entry is one unconfirmed-set entry of a C11(a) scenario.
type C11Entry struct {
	TxID    string `json:"txid"`
	Nanos   int64  `json:"first_seen_unix_nano"`
	Unsafe  bool   `json:"unsafe"`
	Safe    bool   `json:"safe"`
	Trusted bool   `json:"trusted"`
}

func c11RoundTrip(entries []C11Entry) (string, string) {
	ctx := quietCtx()
	st := verifkit.NewMemStore(true)
	repo := NewTxRepository(st)
	want := map[bitcoin.Hash32]C11Entry{}
	for _, e := range entries {
		h, err := bitcoin.NewHash32FromStr(e.TxID)
		if err != nil {
			return "C11/harness", err.Error()
		}
		repo.unconfirmed[*h] = &unconfirmedTx{time: time.Unix(0, e.Nanos), unsafe: e.Unsafe, safe: e.Safe, trusted: e.Trusted}
		want[*h] = e
	}
	if err := repo.Save(ctx); err != nil {
		return "C11/unconfirmed/save", err.Error()
	}
	fresh := NewTxRepository(st)
	if err := fresh.Load(ctx); err != nil {
		return "C11/unconfirmed/load", "saved unconfirmed set does not load: " + err.Error()
	}
	if len(fresh.unconfirmed) != len(want) {
		return "C11/unconfirmed/count", fmt.Sprintf("saved %d entries, loaded %d", len(want), len(fresh.unconfirmed))
	}
	for h, e := range want {
		g, ok := fresh.unconfirmed[h]
		if !ok {
			return "C11/unconfirmed/missing", "entry " + h.String() + " lost"
		}
		if g.unsafe != e.Unsafe || g.safe != e.Safe || g.trusted != e.Trusted {
			return "C11/unconfirmed/flags", fmt.Sprintf("entry %s: flags unsafe/safe/trusted %v/%v/%v loaded as %v/%v/%v", h, e.Unsafe, e.Safe, e.Trusted, g.unsafe, g.safe, g.trusted)
		}
		wantMs := floorDiv(e.Nanos, 1000000)
		if floorDiv(g.time.UnixNano(), 1000000) != wantMs || g.time.UnixNano()%1000000 != 0 {
			return "C11/unconfirmed/time", fmt.Sprintf("entry %s: first-seen %d ns loaded as %d ns (want millisecond precision)", h, e.Nanos, g.time.UnixNano())
		}
	}
	// a second save/load must be stable
	if err := fresh.Save(ctx); err != nil {
		return "C11/unconfirmed/save", err.Error()
	}
	again := NewTxRepository(st)
	if err := again.Load(ctx); err != nil || len(again.unconfirmed) != len(want) {
		return "C11/unconfirmed/load", "second save/load changed the set"
	}
	return "", ""
}

func floorDiv(a, b int64) int64 {
	q := a / b
	if (a%b != 0) && ((a < 0) != (b < 0)) {
		q--
	}
	return q
}

func TestC11UnconfirmedRoundTrip(t *testing.T) {
	rep := verifkit.NewReport("C11", "TestC11UnconfirmedRoundTrip", "unconfirmed sets of 0..8 entries with every flag combination and first-seen times at ms and sub-ms values, saved and loaded by the tx repository; non-trivial = at least 2 entries with different flags; distinct by scenario hash")
	defer rep.Finish(t)
	if f := verifkit.ReplayFile("TestC11UnconfirmedRoundTrip"); f != "" {
		var es []C11Entry
		if _, _, err := verifkit.LoadReplay(f, &es); err != nil {
			t.Fatal(err)
		}
		rep.Case(verifkit.Hash(es), true, "replay")
		if k, w := c11RoundTrip(es); k != "" {
			rep.AddViolation(k, w, es)
			t.Errorf("%s: %s", k, w)
		}
		return
	}
	// all flag combinations systematically first
	var all []C11Entry
	for i := 0; i < 8; i++ {
		var h bitcoin.Hash32
		h[0] = byte(i + 1)
		all = append(all, C11Entry{TxID: h.String(), Nanos: 1700000000123456789 + int64(i)*999999, Unsafe: i&1 != 0, Safe: i&2 != 0, Trusted: i&4 != 0})
	}
	rep.Case(verifkit.Hash(all), true, "all-flags")
	if k, w := c11RoundTrip(all); k != "" {
		rep.AddViolation(k, w, all)
		t.Errorf("%s: %s", k, w)
	}
	rapid.Check(t, func(rt *rapid.T) {
		n := rapid.IntRange(0, 8).Draw(rt, "n")
		var es []C11Entry
		flags := map[int]bool{}
		for i := 0; i < n; i++ {
			var h bitcoin.Hash32
			h[0], h[1], h[31] = byte(i+1), rapid.Byte().Draw(rt, "h"), 7
			f := rapid.IntRange(0, 7).Draw(rt, "flags")
			flags[f] = true
			nanos := rapid.SampledFrom([]int64{0, 1, 999999, 1000000, 1700000000000000000, 1700000000000999999, 1700000000123456789}).Draw(rt, "t")
			nanos += rapid.Int64Range(0, 5000000000).Draw(rt, "dt")
			es = append(es, C11Entry{TxID: h.String(), Nanos: nanos, Unsafe: f&1 != 0, Safe: f&2 != 0, Trusted: f&4 != 0})
		}
		rep.Case(verifkit.Hash(es), len(flags) >= 2, fmt.Sprintf("n:%d", n))
		if len(flags) >= 2 && rep.WantSample() {
			rep.Sample(es)
		}
		if k, w := c11RoundTrip(es); k != "" {
			rep.Fail(k, w, es)
			rt.Fatalf("%s: %s", k, w)
		}
	})
}
