//go:build verif

package storage

// Native fuzz target (thorough tier): byte-level exploration of the stored-record parsers.

import (
	"fmt"
	"testing"

	"github.com/tokenized/spynode/internal/verifkit"
)

// fuzzRecordKinds are the record kinds without an embedded dependency transaction decoder (whose
// known findings would end every campaign at once).
var fuzzRecordKinds = []string{"peers", "reorg", "unconf", "blocktx"}

// fuzzRecordBody is the oracle shared by the fuzz target and its replay test.
func fuzzRecordBody(data []byte) (v string) {
	if len(data) == 0 {
		return ""
	}
	kind := fuzzRecordKinds[int(data[0])%len(fuzzRecordKinds)]
	body := data[1:]
	defer func() {
		if r := recover(); r != nil {
			v = fmt.Sprintf("C20/panic: parsing a %d-byte %s record panicked: %v", len(body), kind, r)
		}
	}()
	// the blocktx kind runs five repository operations on the record, each with its own copies: four
	// times the one-call budget still separates bounded from count-driven allocation by orders of magnitude
	limit := 4 * verifkit.AllocBound(len(body))
	if alloc := verifkit.QuietAlloc(limit, func() { c20Decoders[kind](body) }); alloc > limit {
		return fmt.Sprintf("C20/alloc: parsing a %d-byte %s record allocated %d bytes (budget %d)", len(body), kind, alloc, limit)
	}
	return ""
}

func FuzzRecord(f *testing.F) {
	for k := range fuzzRecordKinds {
		f.Add([]byte{byte(k)})
		f.Add([]byte{byte(k), 1, 0, 0, 0})
		f.Add([]byte{byte(k), 0xff, 0xff, 0xff, 0xff, 0xff, 0xff, 0xff, 0x7f})
		f.Add([]byte{byte(k), 0xff, 0xff, 0xff, 0x7f, 1, 2, 3, 4, 5, 6, 7, 8, 9, 10, 11, 12, 13, 14, 15, 16, 17, 18, 19, 20, 21, 22, 23, 24, 25, 26, 27, 28, 29, 30, 31, 32, 33})
		f.Add(append([]byte{byte(k), 2, 0, 0, 0}, make([]byte, 200)...))
	}
	f.Fuzz(func(t *testing.T, data []byte) {
		if v := fuzzRecordBody(data); v != "" {
			t.Fatal(v)
		}
	})
}

// C20FuzzInput is the replay form.
type C20FuzzInput struct {
	Hex string `json:"hex"`
}

// TestFuzzRecordReplay re-runs a saved fuzz input through the same oracle.
func TestFuzzRecordReplay(t *testing.T) {
	rep := verifkit.NewReport("C20", "TestFuzzRecordReplay", "replay of inputs found by the native fuzz campaign FuzzRecord")
	defer rep.Finish(t)
	run := func(path string) {
		var in C20FuzzInput
		if _, _, err := verifkit.LoadReplay(path, &in); err != nil {
			return
		}
		b := []byte{}
		fmt.Sscanf(in.Hex, "%x", &b)
		rep.Case(verifkit.HashBytes(b), true, "replay")
		if v := fuzzRecordBody(b); v != "" {
			rep.AddViolation("C20/fuzz/FuzzRecord", v, &in)
			t.Errorf("%s", v)
		}
	}
	if f := verifkit.ReplayFile("TestFuzzRecordReplay"); f != "" {
		run(f)
		return
	}
	for _, f := range verifkit.RegressionFiles("TestFuzzRecordReplay") {
		run(f)
	}
}
