//go:build verif

package storage

// C20 — Decoding hostile bytes fails cleanly (stored records: peers, reorg, unconfirmed set,
// per-block txid file, tx state, block header files).

import (
	"bytes"
	"context"
	"encoding/hex"
	"fmt"
	"strings"
	"sync"
	"testing"

	"github.com/tokenized/logger"
	"github.com/tokenized/pkg/bitcoin"
	"github.com/tokenized/pkg/wire"
	"github.com/tokenized/spynode/internal/platform/config"
	"github.com/tokenized/spynode/internal/verifkit"
	"github.com/tokenized/spynode/pkg/client"

	"pgregory.net/rapid"
)

func quietCtx() context.Context { return logger.ContextWithNoLogger(context.Background()) }

var c20Decoders = map[string]func([]byte){
	"peers": func(b []byte) {
		st := verifkit.NewMemStore(true)
		_ = st.Write(quietCtx(), peersPath, b, nil)
		_ = NewPeerRepository(st).Load(quietCtx())
	},
	"reorg": func(b []byte) {
		st := verifkit.NewMemStore(true)
		_ = st.Write(quietCtx(), "spynode/reorgs/active", b, nil)
		_, _ = NewReorgRepository(st).GetActive(quietCtx())
	},
	"unconf": func(b []byte) {
		st := verifkit.NewMemStore(true)
		_ = st.Write(quietCtx(), unconfirmedPath, b, nil)
		_ = NewTxRepository(st).Load(quietCtx())
	},
	"blocktx": func(b []byte) {
		st := verifkit.NewMemStore(true)
		repo := NewTxRepository(st)
		_ = st.Write(quietCtx(), repo.buildPath(7), b, nil)
		var txid bitcoin.Hash32
		txid[0] = 9
		if _, err := repo.GetBlock(quietCtx(), 7); err == nil {
			_ = repo.ReleaseBlock(quietCtx(), 7)
		}
		_, _ = repo.Contains(quietCtx(), txid, 7)
		_, _, _ = repo.Add(quietCtx(), txid, true, true, 7)
		_, _ = repo.Remove(quietCtx(), txid, 7)
	},
	"txstate": func(b []byte) {
		st := verifkit.NewMemStore(true)
		var txid bitcoin.Hash32
		_ = st.Write(quietCtx(), fmt.Sprintf("%s/%s", txStatePath, txid), b, nil)
		_, _ = FetchTxState(quietCtx(), st, txid)
	},
	"blocks": func(b []byte) {
		st := verifkit.NewMemStore(true)
		repo := NewBlockRepository(config.Config{Net: bitcoin.MainNet}, st)
		_ = st.Write(quietCtx(), repo.buildPath(0), b, nil)
		if err := repo.Load(quietCtx()); err == nil {
			_, _ = repo.Hash(quietCtx(), repo.LastHeight())
		}
	},
	// a header file that is not the latest one: the repository was loaded while the file was intact
	// (Load itself refuses a short older file) and the record under that key is then replaced by the
	// input; the by-height lookups that read the file from storage run around the height at which the
	// input ends
	"blocks-old": func(b []byte) {
		repo, st := c20OldFileRepo()
		_ = st.Write(quietCtx(), repo.buildPath(0), b, nil)
		n := len(b) / 80
		for _, h := range []int{n, n - 1} {
			if h < 0 || h >= blocksPerKey {
				continue
			}
			_, _ = repo.Hash(quietCtx(), h)
			if h == n {
				_, _ = repo.Header(quietCtx(), h)
				_, _ = repo.Time(quietCtx(), h)
			}
		}
	},
}

// c20KindConst is the input-independent part of the allocation budget per record kind: reading a
// header file always reserves room for a full file of 1000 headers (80 000 bytes) whatever the input
// holds, which is a constant, not an allocation driven by what the bytes claim.
var c20KindConst = map[string]uint64{"blocks": 1 << 20, "blocks-old": 1 << 20}

func c20Bound(kind string, n int) uint64 { return verifkit.AllocBound(n) + c20KindConst[kind] }

var (
	c20OldOnce  sync.Once
	c20OldRepo  *BlockRepository
	c20OldStore *verifkit.MemStore
	c20OldFull  []byte
)

// c20FullHeaderFile returns a full 1000-header file (deterministic contents).
func c20FullHeaderFile() []byte {
	var buf bytes.Buffer
	for i := 0; i < blocksPerKey; i++ {
		h := wire.BlockHeader{Version: 1, Timestamp: uint32(1600000000 + i), Bits: 0x1d00ffff, Nonce: uint32(i)}
		h.PrevBlock[0], h.PrevBlock[1] = byte(i), byte(i>>8)
		_ = h.Serialize(&buf)
	}
	return buf.Bytes()
}

func c20OldFileRepo() (*BlockRepository, *verifkit.MemStore) {
	c20OldOnce.Do(func() {
		c20OldStore = verifkit.NewMemStore(true)
		c20OldRepo = NewBlockRepository(config.Config{Net: bitcoin.MainNet}, c20OldStore)
		c20OldFull = c20FullHeaderFile()
		_ = c20OldStore.Write(quietCtx(), c20OldRepo.buildPath(0), c20OldFull, nil)
		var buf bytes.Buffer
		for i := 0; i < 3; i++ {
			h := wire.BlockHeader{Version: 1, Timestamp: uint32(1600001000 + i), Bits: 0x1d00ffff, Nonce: uint32(1000 + i)}
			_ = h.Serialize(&buf)
		}
		_ = c20OldStore.Write(quietCtx(), c20OldRepo.buildPath(blocksPerKey), buf.Bytes(), nil)
		if err := c20OldRepo.Load(quietCtx()); err != nil {
			panic("harness: loading the two-file chain failed: " + err.Error())
		}
	})
	return c20OldRepo, c20OldStore
}

var c20Worker = verifkit.NewWorker("^TestC20Worker$")

// TestC20Worker is the decoding child process.
func TestC20Worker(t *testing.T) {
	if !verifkit.IsWorker() {
		t.Skip("worker entry point")
	}
	c20OldFileRepo() // built before serving so that its one-time cost is not attributed to an input
	verifkit.ServeWorker(c20Decoders, 3<<30)
}

// C20Record is the replay form.
type C20Record struct {
	Kind string `json:"kind"`
	Hex  string `json:"hex"`
	Note string `json:"note,omitempty"`
}

type c20Violation struct{ key, what string }

func c20Judge(kind string, b []byte, note string, rep *verifkit.Report) (*c20Violation, bool) {
	o, _, died, dmsg, dsite, err := c20Worker.Do("D", kind, b)
	if err != nil {
		rep.Label("worker-infra-error", 1) // inconclusive for this input, never a violation
		rep.Notes["worker-infra-error"] = err.Error()
		return nil, true
	}
	flag := func(key, what string) (*c20Violation, bool) {
		if verifkit.Known(key) {
			rep.Exclude(key)
			return nil, true
		}
		if strings.HasSuffix(key, "/unknown") || strings.HasSuffix(key, "/unattributed") {
			// the cause could not be attributed to a function (no usable stack in the crash report or
			// the heap profile): it may be one of the known dependency findings, so no verdict
			rep.Label("cause-not-attributed", 1)
			return nil, true
		}
		return &c20Violation{key, what}, true
	}
	if died {
		return flag("C20/fatal/"+verifkit.SiteKey(dsite), fmt.Sprintf("parsing a %d-byte %s record (%s) killed the process: %s (at %s)", len(b), kind, note, dmsg, dsite))
	}
	if o.Panicked {
		return flag("C20/panic/"+verifkit.SiteKey(o.PanicSite), fmt.Sprintf("parsing a %d-byte %s record (%s) panicked: %s", len(b), kind, note, o.PanicMsg))
	}
	if o.Alloc > c20Bound(kind, len(b)) {
		_, site, died, _, dsite, _ := c20Worker.Do("T", kind, b)
		if died {
			site = dsite
		}
		return flag("C20/alloc/"+verifkit.SiteKey(site), fmt.Sprintf("parsing a %d-byte %s record (%s) allocated %d bytes (budget %d) at %s", len(b), kind, note, o.Alloc, c20Bound(kind, len(b)), site))
	}
	return nil, false
}

func genHash(t *rapid.T, label string) bitcoin.Hash32 {
	var h bitcoin.Hash32
	copy(h[:], rapid.SliceOfN(rapid.Byte(), 32, 32).Draw(t, label))
	return h
}

func genHeader(t *rapid.T, label string) wire.BlockHeader {
	return wire.BlockHeader{Version: rapid.Int32().Draw(t, label+"v"), PrevBlock: genHash(t, label+"p"), MerkleRoot: genHash(t, label+"m"),
		Timestamp: rapid.Uint32().Draw(t, label+"t"), Bits: rapid.Uint32().Draw(t, label+"b"), Nonce: rapid.Uint32().Draw(t, label+"n")}
}

// genRecord draws a kind and a valid record of that kind, produced by the repository's own writer.
func genRecord(t *rapid.T) (string, []byte) {
	ctx := quietCtx()
	kind := rapid.SampledFrom([]string{"peers", "reorg", "unconf", "blocktx", "txstate", "blocks", "blocks-old"}).Draw(t, "kind")
	st := verifkit.NewMemStore(true)
	switch kind {
	case "peers":
		repo := NewPeerRepository(st)
		for i, n := 0, rapid.IntRange(0, 5).Draw(t, "n"); i < n; i++ {
			addr := rapid.StringN(0, 40, 60).Draw(t, "addr")
			_, _ = repo.Add(ctx, addr)
			repo.UpdateScore(ctx, addr, rapid.Int32().Draw(t, "score"))
		}
		_ = repo.Save(ctx)
		b, _ := st.Read(ctx, peersPath)
		return kind, b
	case "reorg":
		r := Reorg{BlockHeight: rapid.IntRange(0, 1<<30).Draw(t, "h")}
		for i, n := 0, rapid.IntRange(0, 3).Draw(t, "n"); i < n; i++ {
			rb := ReorgBlock{Header: genHeader(t, "hdr")}
			for j, k := 0, rapid.IntRange(0, 3).Draw(t, "k"); j < k; j++ {
				rb.TxIds = append(rb.TxIds, genHash(t, "txid"))
			}
			r.Blocks = append(r.Blocks, rb)
		}
		var buf bytes.Buffer
		_ = r.Write(&buf)
		return kind, buf.Bytes()
	case "unconf":
		repo := NewTxRepository(st)
		for i, n := 0, rapid.IntRange(1, 5).Draw(t, "n"); i < n; i++ {
			_, _, _ = repo.Add(ctx, genHash(t, "txid"), rapid.Bool().Draw(t, "tr"), rapid.Bool().Draw(t, "sf"), -1)
		}
		_ = repo.Save(ctx)
		b, _ := st.Read(ctx, unconfirmedPath)
		return kind, b
	case "blocktx":
		var b []byte
		for i, n := 0, rapid.IntRange(0, 5).Draw(t, "n"); i < n; i++ {
			h := genHash(t, "txid")
			b = append(b, h[:]...)
		}
		return kind, b
	case "txstate":
		tx := client.VerifClientTx(t, "tx")
		var buf bytes.Buffer
		_ = tx.Serialize(&buf)
		return kind, buf.Bytes()
	case "blocks-old":
		// a full older file cut after a drawn number of whole headers
		full := c20FullHeaderFile()
		return kind, full[:80*rapid.IntRange(0, blocksPerKey).Draw(t, "headers")]
	default:
		var buf bytes.Buffer
		for i, n := 0, rapid.IntRange(1, 6).Draw(t, "n"); i < n; i++ {
			h := genHeader(t, "hdr")
			_ = h.Serialize(&buf)
		}
		return kind, buf.Bytes()
	}
}

var c20Fixed32 = [][]byte{
	{0xff, 0xff, 0x00, 0x00}, // 65535 (pass 1)
	{0xff, 0xff, 0xff, 0xff}, // -1 / 2^32-1
	{0xff, 0xff, 0xff, 0x7f}, // 2^31-1
	{0x00, 0x00, 0x00, 0x80}, // -2^31
	{0x00, 0x00, 0x10, 0x00}, // 2^20
	{0xfe, 0xff, 0xff, 0xff}, // -2
}

func splice4(b []byte, i int, repl []byte) []byte {
	out := append([]byte{}, b...)
	for k := 0; k < len(repl) && i+k < len(out); k++ {
		out[i+k] = repl[k]
	}
	return out
}

const c20StorageRule = "valid stored records written by the repositories' own writers (peers file, reorg record, unconfirmed set, per-block txid file, tx state, header file - as the latest file at load and as an older file read by the by-height lookups after it was cut at a drawn header boundary or next to it) mutated at every offset with hostile fixed-width counts (65535 first; -1, 2^31-1, -2^31, 2^20, -2 where the first pass stayed within budget), hostile varints for the tx-state record, truncations and odd lengths; oracle: no panic, allocation <= 16KiB + 32*len (+1MiB constant for header files, whose reader always reserves a full file); non-trivial = mutated record; distinct by input hash"

func TestC20Storage(t *testing.T) {
	rep := verifkit.NewReport("C20", "TestC20Storage", c20StorageRule)
	defer rep.Finish(t)
	defer c20Worker.Close()
	if f := verifkit.ReplayFile("TestC20Storage"); f != "" {
		var in C20Record
		if _, _, err := verifkit.LoadReplay(f, &in); err != nil {
			t.Fatal(err)
		}
		b, _ := hex.DecodeString(in.Hex)
		rep.Case(verifkit.HashBytes(b), true, "replay")
		if v, _ := c20Judge(in.Kind, b, in.Note, rep); v != nil {
			rep.AddViolation(v.key, v.what, &in)
			t.Errorf("%s: %s", v.key, v.what)
		}
		return
	}
	seen := map[string]bool{}
	record := func(v *c20Violation, in *C20Record) {
		if v == nil || seen[v.key] {
			return
		}
		seen[v.key] = true
		rep.AddViolation(v.key, v.what, in)
		t.Errorf("%s: %s", v.key, v.what)
	}
	for _, f := range verifkit.RegressionFiles("TestC20Storage") {
		var in C20Record
		if _, _, err := verifkit.LoadReplay(f, &in); err == nil {
			b, _ := hex.DecodeString(in.Hex)
			rep.Case(verifkit.HashBytes(b), true, "replay")
			v, _ := c20Judge(in.Kind, b, in.Note, rep)
			record(v, &in)
		}
	}
	rapid.Check(t, func(rt *rapid.T) {
		kind, valid := genRecord(rt)
		o, _, died, _, _, _ := c20Worker.Do("D", kind, valid)
		if died || o.Panicked || o.Alloc > c20Bound(kind, len(valid))/2 {
			rep.Label("calibration-failed:"+kind, 1)
			rep.Notes["calibration-"+kind] = fmt.Sprintf("valid %d-byte %s: alloc %d panic=%v died=%v", len(valid), kind, o.Alloc, o.Panicked, died)
			return
		}
		rep.Case(verifkit.HashBytes(valid), false, "calibration:"+kind)
		try := func(b []byte, note string, label string) bool {
			in := &C20Record{Kind: kind, Hex: hex.EncodeToString(b), Note: note}
			v, flagged := c20Judge(kind, b, note, rep)
			rep.Case(verifkit.HashBytes(b), true, label)
			record(v, in)
			return flagged
		}
		step := 1
		if len(valid) > 500 {
			step = 1 + len(valid)/250
		}
		if kind == "blocks-old" {
			// fixed-width records without counts: what varies is where the stored bytes end
			try(valid, fmt.Sprintf("older header file cut to %d whole headers", len(valid)/80), "truncation")
			for _, d := range []int{-81, -80, -79, -1, 1, 40, 79, 80} {
				if k := len(valid) + d; k >= 0 && k <= 80*blocksPerKey {
					try(c20FullHeaderFile()[:k], fmt.Sprintf("older header file cut to %d bytes", k), "truncation")
				}
			}
			try(rapid.SliceOfN(rapid.Byte(), 0, 400).Draw(rt, "random"), "random bytes", "random")
			return
		}
		for i := 0; i < len(valid); i += 1 {
			if i > 150 && i%step != 0 {
				continue
			}
			if kind == "txstate" {
				if try(verifkit.Splice(valid, i, verifkit.HostileModerate), fmt.Sprintf("offset %d := varint 65535", i), "pass1") {
					continue
				}
				for _, e := range verifkit.HostileExtreme {
					try(verifkit.Splice(valid, i, e), fmt.Sprintf("offset %d := %x", i, e), "pass2")
				}
				continue
			}
			if try(splice4(valid, i, c20Fixed32[0]), fmt.Sprintf("offset %d := int32 65535", i), "pass1") {
				continue
			}
			for _, e := range c20Fixed32[1:] {
				try(splice4(valid, i, e), fmt.Sprintf("offset %d := %x", i, e), "pass2")
			}
		}
		// truncations and odd lengths
		for k := 0; k < len(valid); k += 1 + len(valid)/40 {
			try(valid[:k], fmt.Sprintf("truncated to %d", k), "truncation")
		}
		try(append(append([]byte{}, valid...), 0x01), "one extra byte", "extended")
		tail := rapid.SliceOfN(rapid.Byte(), 0, 80).Draw(rt, "random")
		try(tail, "random bytes", "random")
		if rep.WantSample() && len(valid) > 8 && len(valid) < 200 {
			rep.Sample(map[string]interface{}{"kind": kind, "valid_hex": hex.EncodeToString(valid)})
		}
	})
	rep.Notes["worker"] = fmt.Sprintf("spawned=%d deaths=%d", c20Worker.Spawned, c20Worker.Deaths)
}
