//go:build verif

package storage

import (
	"time"

	"github.com/tokenized/pkg/bitcoin"
)

// VerifShiftTime moves first-seen stamps of the unconfirmed set back by d.
func (repo *TxRepository) VerifShiftTime(d time.Duration) {
	repo.unconfirmedLock.Lock()
	defer repo.unconfirmedLock.Unlock()
	for _, tx := range repo.unconfirmed {
		tx.time = tx.time.Add(-d)
	}
}

// VerifUnconfirmedEntry is a read-only copy of one tracked unconfirmed entry.
type VerifUnconfirmedEntry struct {
	Time    time.Time
	Unsafe  bool
	Safe    bool
	Trusted bool
}

// VerifUnconfirmed returns a copy of the unconfirmed set.
func (repo *TxRepository) VerifUnconfirmed() map[bitcoin.Hash32]VerifUnconfirmedEntry {
	repo.unconfirmedLock.Lock()
	defer repo.unconfirmedLock.Unlock()
	out := map[bitcoin.Hash32]VerifUnconfirmedEntry{}
	for k, v := range repo.unconfirmed {
		out[k] = VerifUnconfirmedEntry{Time: v.time, Unsafe: v.unsafe, Safe: v.safe, Trusted: v.trusted}
	}
	return out
}
