//go:build verif

package state

// C05 (component level) — mempool conflict index vs. an outpoint->spenders reference model.

import (
	"context"
	"fmt"
	"sort"
	"testing"

	"github.com/tokenized/logger"
	"github.com/tokenized/pkg/bitcoin"
	"github.com/tokenized/pkg/wire"
	"github.com/tokenized/spynode/internal/verifkit"

	"pgregory.net/rapid"
)

// C05Op is one mempool operation. Transactions are named by index into Txs.
type C05Op struct {
	Op      string `json:"op"` // add remove conflicting request
	Tx      int    `json:"tx"`
	Trusted bool   `json:"trusted"`
}

// C05Scenario is a universe of transactions (each a list of outpoint numbers) plus operations.
type C05Scenario struct {
	Txs [][]int `json:"txs"` // tx i spends outpoints Txs[i] (numbers 0..5)
	Ops []C05Op `json:"ops"`
}

func c05Outpoint(n int) wire.OutPoint {
	var h bitcoin.Hash32
	h[0] = byte(0xa0 + n/2) // two outputs per funding tx so that hashes repeat with different indexes
	return wire.OutPoint{Hash: h, Index: uint32(n % 2)}
}

func c05Tx(sc *C05Scenario, i int) *wire.MsgTx {
	tx := wire.NewMsgTx(1)
	for _, o := range sc.Txs[i] {
		op := c05Outpoint(o)
		tx.AddTxIn(wire.NewTxIn(&op, []byte{0x51}))
	}
	tx.AddTxOut(wire.NewTxOut(uint64(1000+i), []byte{0x6a, byte(i)}))
	return tx
}

type c05Violation struct{ key, what string }

func c05Run(sc *C05Scenario) (*c05Violation, map[string]bool) {
	ctx := logger.ContextWithNoLogger(context.Background())
	mp := NewMemPool()
	flags := map[string]bool{}
	txs := make([]*wire.MsgTx, len(sc.Txs))
	ids := make([]bitcoin.Hash32, len(sc.Txs))
	name := map[bitcoin.Hash32]int{}
	for i := range sc.Txs {
		txs[i] = c05Tx(sc, i)
		ids[i] = *txs[i].TxHash()
		name[ids[i]] = i
	}
	inPool := map[int]bool{} // txs whose body is in the pool
	removedOnce := false

	spenders := func(i int) []int { // other pool txs sharing an outpoint with tx i
		var out []int
		for j := range sc.Txs {
			if j == i || !inPool[j] {
				continue
			}
			share := false
			for _, a := range sc.Txs[i] {
				for _, b := range sc.Txs[j] {
					if a == b {
						share = true
					}
				}
			}
			if share {
				out = append(out, j)
			}
		}
		return out
	}
	names := func(hs []bitcoin.Hash32) ([]int, bool) {
		var out []int
		dup := false
		seen := map[int]bool{}
		for _, h := range hs {
			n, ok := name[h]
			if !ok {
				n = -1
			}
			if seen[n] {
				dup = true
			}
			seen[n] = true
			out = append(out, n)
		}
		sort.Ints(out)
		return out, dup
	}
	eq := func(a, b []int) bool {
		if len(a) != len(b) {
			return false
		}
		for i := range a {
			if a[i] != b[i] {
				return false
			}
		}
		return true
	}

	for step, op := range sc.Ops {
		i := op.Tx % len(sc.Txs)
		pre := fmt.Sprintf("step %d %s(tx%d %v)", step, op.Op, i, sc.Txs[i])
		switch op.Op {
		case "add":
			want := spenders(i)
			already := inPool[i]
			got, _, added := mp.AddTransaction(ctx, txs[i], op.Trusted)
			gn, dup := names(got)
			if already {
				if added {
					return &c05Violation{"C05/mempool/added-twice", pre + ": reported as newly added though its body is already in the pool"}, flags
				}
				continue
			}
			if !added {
				return &c05Violation{"C05/mempool/not-added", pre + ": not reported as added though it is new"}, flags
			}
			inPool[i] = true
			if len(want) > 0 {
				flags["conflict"] = true
				if removedOnce {
					flags["conflict-after-remove"] = true
				}
			} else if removedOnce {
				flags["clean-add-after-remove"] = true
			}
			if dup {
				return &c05Violation{"C05/mempool/duplicate-conflict", pre + fmt.Sprintf(": conflict list %v contains a duplicate", gn)}, flags
			}
			if !eq(gn, want) {
				key := "C05/mempool/conflicts-missed"
				if len(gn) > len(want) {
					key = "C05/mempool/false-conflicts"
				}
				for _, g := range gn {
					found := false
					for _, w := range want {
						if w == g {
							found = true
						}
					}
					if !found {
						key = "C05/mempool/false-conflicts"
					}
				}
				return &c05Violation{key, pre + fmt.Sprintf(": conflict list %v, model (other pool txs sharing an outpoint) %v", gn, want)}, flags
			}
		case "remove":
			want := inPool[i]
			got := mp.RemoveTransaction(ids[i])
			if got != want {
				return &c05Violation{"C05/mempool/remove-result", pre + fmt.Sprintf(": returned %v, model %v", got, want)}, flags
			}
			if want {
				removedOnce = true
			}
			delete(inPool, i)
		case "conflicting":
			// callers only ask for a tx that is not itself in the pool
			if inPool[i] {
				continue
			}
			want := spenders(i)
			got := mp.Conflicting(txs[i])
			gn, _ := names(got)
			// the same spender may be listed once per shared outpoint in principle; compare as sets
			set := map[int]bool{}
			for _, g := range gn {
				set[g] = true
			}
			var gs []int
			for g := range set {
				gs = append(gs, g)
			}
			sort.Ints(gs)
			if !eq(gs, want) {
				return &c05Violation{"C05/mempool/conflicting-set", pre + fmt.Sprintf(": Conflicting returned %v, model %v", gs, want)}, flags
			}
			for _, w := range want {
				delete(inPool, w)
				removedOnce = true
				flags["evicted"] = true
			}
		case "request":
			have, _ := mp.AddRequest(ctx, ids[i], op.Trusted)
			if have != inPool[i] {
				return &c05Violation{"C05/mempool/request-have", pre + fmt.Sprintf(": AddRequest says already-have=%v, model %v", have, inPool[i])}, flags
			}
		}
		// exactness of the index after every operation (white-box)
		mp.mutex.Lock()
		model := map[bitcoin.Hash32][]int{}
		for j := range sc.Txs {
			if !inPool[j] {
				continue
			}
			for _, o := range sc.Txs[j] {
				op := c05Outpoint(o)
				model[*op.OutpointHash()] = append(model[*op.OutpointHash()], j)
			}
		}
		var bad string
		for k, list := range mp.inputs {
			gn, dup := names(list)
			want := append([]int{}, model[k]...)
			sort.Ints(want)
			if dup || !eq(gn, want) {
				bad = fmt.Sprintf("index entry lists %v, pool members spending that outpoint are %v", gn, want)
			}
		}
		for k, want := range model {
			if _, ok := mp.inputs[k]; !ok && len(want) > 0 {
				bad = fmt.Sprintf("index has no entry for an outpoint spent by pool members %v", want)
			}
		}
		for j := range sc.Txs {
			mtx, ok := mp.txs[ids[j]]
			has := ok && len(mtx.outPoints) > 0
			if has != inPool[j] {
				bad = fmt.Sprintf("pool membership of tx%d is %v, model %v", j, has, inPool[j])
			}
		}
		mp.mutex.Unlock()
		if bad != "" {
			return &c05Violation{"C05/mempool/index-drift", pre + ": " + bad}, flags
		}
		for j := range sc.Txs {
			if mp.TransactionExists(&ids[j]) != inPool[j] {
				return &c05Violation{"C05/mempool/exists", pre + fmt.Sprintf(": TransactionExists(tx%d) disagrees with model", j)}, flags
			}
		}
	}
	return nil, flags
}

func genC05(t *rapid.T) *C05Scenario {
	sc := &C05Scenario{}
	ntx := rapid.IntRange(2, 6).Draw(t, "ntx")
	for i := 0; i < ntx; i++ {
		k := rapid.IntRange(1, 3).Draw(t, "nin")
		seen := map[int]bool{}
		var ins []int
		for len(ins) < k {
			o := rapid.IntRange(0, 4).Draw(t, "outpoint")
			if !seen[o] {
				seen[o] = true
				ins = append(ins, o)
			}
		}
		sc.Txs = append(sc.Txs, ins)
	}
	n := rapid.IntRange(2, 30).Draw(t, "nops")
	for i := 0; i < n; i++ {
		sc.Ops = append(sc.Ops, C05Op{
			Op:      rapid.SampledFrom([]string{"add", "add", "add", "add", "remove", "remove", "conflicting", "request"}).Draw(t, "op"),
			Tx:      rapid.IntRange(0, ntx-1).Draw(t, "tx"),
			Trusted: rapid.Bool().Draw(t, "trusted"),
		})
	}
	return sc
}

const c05Rule = "mempool API sequences {add tx (trusted?), remove, conflicting+evict, add request} over up to 6 transactions spending 1..3 of 5 outpoints (two per funding txid); oracle: returned conflict list == other pool members sharing an outpoint (no duplicates), eviction set, and exact equality of the internal outpoint index with the model after every operation; non-trivial = two pool members share an outpoint, or an add after a remove/evict; distinct by scenario hash"

func c05Labels(f map[string]bool) []string {
	var l []string
	for k, v := range f {
		if v {
			l = append(l, k)
		}
	}
	return l
}

func TestC05MemPool(t *testing.T) {
	rep := verifkit.NewReport("C05", "TestC05MemPool", c05Rule)
	defer rep.Finish(t)
	replay := func(path string) {
		var sc C05Scenario
		if _, _, err := verifkit.LoadReplay(path, &sc); err != nil {
			t.Fatalf("replay %s: %v", path, err)
		}
		v, f := c05Run(&sc)
		rep.Case(verifkit.Hash(sc), f["conflict"] || f["clean-add-after-remove"], "replay")
		if v != nil {
			rep.AddViolation(v.key, v.what, sc)
			t.Errorf("replay %s: %s: %s", path, v.key, v.what)
		}
	}
	if f := verifkit.ReplayFile("TestC05MemPool"); f != "" {
		replay(f)
		return
	}
	for _, f := range verifkit.RegressionFiles("TestC05MemPool") {
		replay(f)
	}
	rapid.Check(t, func(rt *rapid.T) {
		sc := genC05(rt)
		v, f := c05Run(sc)
		nt := f["conflict"] || f["clean-add-after-remove"] || f["conflict-after-remove"]
		rep.Case(verifkit.Hash(sc), nt, c05Labels(f)...)
		if nt && rep.WantSample() {
			rep.Sample(sc)
		}
		if v != nil {
			if verifkit.Known(v.key) {
				rep.Exclude(v.key)
				return
			}
			rep.Fail(v.key, v.what, sc)
			rt.Fatalf("%s: %s", v.key, v.what)
		}
	})
}
