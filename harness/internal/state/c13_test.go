//go:build verif

package state

// C13 — Blocks are fetched in order within a bounded window and processed in order.
// Reference FIFO model vs. the real request window (white-box on pendingBlockSize).

import (
	"context"
	"crypto/sha256"
	"encoding/binary"
	"fmt"
	"testing"

	"github.com/tokenized/logger"
	"github.com/tokenized/pkg/bitcoin"
	"github.com/tokenized/pkg/wire"
	"github.com/tokenized/spynode/internal/verifkit"

	"pgregory.net/rapid"
)

// fakeBlock is a wire.Block with an arbitrary declared size.
type fakeBlock struct {
	id   int
	hash bitcoin.Hash32
	size int
}

func (b *fakeBlock) GetHeader() wire.BlockHeader     { return wire.BlockHeader{} }
func (b *fakeBlock) IsMerkleRootValid() bool         { return true }
func (b *fakeBlock) GetTxCount() uint64              { return 0 }
func (b *fakeBlock) GetNextTx() (*wire.MsgTx, error) { return nil, nil }
func (b *fakeBlock) ResetTxs()                       {}
func (b *fakeBlock) SerializeSize() int              { return b.size }

func c13Hash(i int) bitcoin.Hash32 {
	var b [12]byte
	copy(b[:4], "blk:")
	binary.LittleEndian.PutUint64(b[4:], uint64(i))
	return bitcoin.Hash32(sha256.Sum256(b[:]))
}

var c13Sizes = []int{0, 1000, 40000000, 60000001, 100000001}

// C13Op is one step of a C13 scenario (positions, not hashes, so that it shrinks well).
type C13Op struct {
	Op string `json:"op"` // ann annbad del pop next clear clearafter setlast
	K  int    `json:"k"`  // target kind for del/clearafter/annbad: 0 requested[i] 1 toRequest[i] 2 unknown 3 processed[i]
	I  int    `json:"i"`  // index (taken modulo length)
	S  int    `json:"s"`  // size index for del
}

// C13Scenario is a start state plus operations.
type C13Scenario struct {
	PreRequested int     `json:"pre_requested"` // announce this many before the ops
	Ops          []C13Op `json:"ops"`
}

type c13Req struct {
	id     int
	filled bool
	size   int
	blk    *fakeBlock
}

type c13Model struct {
	requested []c13Req
	toRequest []int
	lastSaved int
	processed []int
	fresh     int
}

func (m *c13Model) lastID() int {
	if len(m.toRequest) > 0 {
		return m.toRequest[len(m.toRequest)-1]
	}
	if len(m.requested) > 0 {
		return m.requested[len(m.requested)-1].id
	}
	return m.lastSaved
}

func (m *c13Model) pending() int {
	t := 0
	for _, r := range m.requested {
		if r.filled {
			t += r.size
		}
	}
	return t
}

type c13Violation struct{ key, what string }

func c13pick(m *c13Model, k, i int) (int, bool) {
	switch k {
	case 0:
		if len(m.requested) > 0 {
			return m.requested[i%len(m.requested)].id, true
		}
	case 1:
		if len(m.toRequest) > 0 {
			return m.toRequest[i%len(m.toRequest)], true
		}
	case 3:
		if len(m.processed) > 0 {
			return m.processed[i%len(m.processed)], true
		}
	}
	return 1000000 + i, false // unknown hash
}

// c13Run executes a scenario against a fresh State and the model; returns the first violation.
func c13Run(sc *C13Scenario, rep *verifkit.Report) (*c13Violation, map[string]bool) {
	ctx := logger.ContextWithNoLogger(context.Background())
	st := NewState()
	m := &c13Model{lastSaved: 0, fresh: 1}
	st.SetLastHash(c13Hash(0))
	flags := map[string]bool{}

	announce := func(prev int) *c13Violation {
		id := m.fresh
		m.fresh++
		ph, h := c13Hash(prev), c13Hash(id)
		got, err := st.AddBlockRequest(&ph, &h)
		var want bool
		var wantErr bool
		if prev != m.lastID() {
			wantErr = true
			flags["wrongprev"] = true
		} else if len(m.toRequest) > 0 {
			m.toRequest = append(m.toRequest, id)
		} else if len(m.requested) >= 10 || m.pending() > 100000000 {
			m.toRequest = []int{id}
			if len(m.requested) >= 10 {
				flags["limit-count"] = true
			} else {
				flags["limit-bytes"] = true
			}
		} else {
			m.requested = append(m.requested, c13Req{id: id})
			want = true
		}
		if wantErr != (err != nil) {
			return &c13Violation{"C13/add-request/error", fmt.Sprintf("AddBlockRequest(prev=%d,new=%d): err=%v, model wants error=%v", prev, id, err, wantErr)}
		}
		if err == nil && got != want {
			return &c13Violation{"C13/add-request/send-now", fmt.Sprintf("AddBlockRequest(prev=%d,new=%d) returned %v, model %v", prev, id, got, want)}
		}
		return nil
	}

	check := func(step int, op C13Op) *c13Violation {
		st.lock.Lock()
		implReq := make([]c13Req, len(st.blocksRequested))
		for i, r := range st.blocksRequested {
			implReq[i] = c13Req{filled: r.block != nil, size: r.size}
			for j := 0; j < m.fresh+1; j++ {
				if r.hash == c13Hash(j) {
					implReq[i].id = j
				}
			}
			if fb, ok := r.block.(*fakeBlock); ok {
				implReq[i].blk = fb
			}
		}
		implTo := append([]bitcoin.Hash32{}, st.blocksToRequest...)
		implPending := st.pendingBlockSize
		implLast := st.lastSavedHash
		st.lock.Unlock()

		pre := fmt.Sprintf("step %d %+v: ", step, op)
		if len(implReq) > 10 {
			return &c13Violation{"C13/window/more-than-ten", pre + fmt.Sprintf("%d blocks requested", len(implReq))}
		}
		if len(implReq) != len(m.requested) {
			return &c13Violation{"C13/window/requested-list", pre + fmt.Sprintf("requested len %d, model %d", len(implReq), len(m.requested))}
		}
		for i := range implReq {
			if implReq[i].id != m.requested[i].id || implReq[i].filled != m.requested[i].filled {
				return &c13Violation{"C13/window/requested-list", pre + fmt.Sprintf("requested[%d] = (%d filled=%v), model (%d filled=%v)", i, implReq[i].id, implReq[i].filled, m.requested[i].id, m.requested[i].filled)}
			}
			if implReq[i].filled && implReq[i].blk != m.requested[i].blk {
				return &c13Violation{"C13/window/wrong-body", pre + fmt.Sprintf("requested[%d] holds a different block body than the last one delivered", i)}
			}
		}
		if len(implTo) != len(m.toRequest) {
			return &c13Violation{"C13/window/to-request-list", pre + fmt.Sprintf("toRequest len %d, model %d", len(implTo), len(m.toRequest))}
		}
		for i := range implTo {
			if implTo[i] != c13Hash(m.toRequest[i]) {
				return &c13Violation{"C13/window/to-request-list", pre + fmt.Sprintf("toRequest[%d] differs from model %d", i, m.toRequest[i])}
			}
		}
		if implLast != c13Hash(m.lastSaved) {
			return &c13Violation{"C13/window/last-saved", pre + "lastSavedHash differs from model"}
		}
		if implPending != m.pending() {
			key := "C13/pending-size/" + op.Op
			if !verifkit.Known(key) {
				return &c13Violation{key, pre + fmt.Sprintf("pendingBlockSize=%d but buffered blocks sum to %d (%d buffered)", implPending, m.pending(), countFilled(m))}
			}
			if rep != nil {
				rep.Exclude(key)
			}
			// resynchronise so the search continues behind the known finding
			st.lock.Lock()
			st.pendingBlockSize = m.pending()
			st.lock.Unlock()
		}
		// public queries
		if st.BlocksRequestedCount() != len(m.requested) || st.BlocksToRequestCount() != len(m.toRequest) ||
			st.TotalBlockRequestCount() != len(m.requested)+len(m.toRequest) ||
			st.BlockRequestsEmpty() != (len(m.requested)+len(m.toRequest) == 0) {
			return &c13Violation{"C13/queries/counts", pre + "count queries disagree with model"}
		}
		if st.LastHash() != c13Hash(m.lastID()) {
			return &c13Violation{"C13/queries/last-hash", pre + "LastHash disagrees with model"}
		}
		for _, r := range m.requested {
			h := c13Hash(r.id)
			if !st.BlockIsRequested(&h) || st.BlockIsToBeRequested(&h) {
				return &c13Violation{"C13/queries/is-requested", pre + "membership queries disagree"}
			}
		}
		for _, id := range m.toRequest {
			h := c13Hash(id)
			if st.BlockIsRequested(&h) || !st.BlockIsToBeRequested(&h) {
				return &c13Violation{"C13/queries/is-requested", pre + "membership queries disagree"}
			}
		}
		return nil
	}

	for i := 0; i < sc.PreRequested; i++ {
		if v := announce(m.lastID()); v != nil {
			return v, flags
		}
	}
	if v := check(-1, C13Op{Op: "pre"}); v != nil {
		return v, flags
	}

	for step, op := range sc.Ops {
		switch op.Op {
		case "ann":
			if v := announce(m.lastID()); v != nil {
				return v, flags
			}
		case "annbad":
			prev, _ := c13pick(m, op.K, op.I)
			if v := announce(prev); v != nil {
				return v, flags
			}
		case "del":
			id, known := c13pick(m, op.K, op.I)
			blk := &fakeBlock{id: id, hash: c13Hash(id), size: c13Sizes[op.S%len(c13Sizes)]}
			h := c13Hash(id)
			got := st.AddBlock(&h, blk)
			want := false
			for j := range m.requested {
				if m.requested[j].id == id {
					want = true
					if m.requested[j].filled {
						flags["dup-delivery"] = true
					}
					if j > 0 && !m.requested[0].filled {
						flags["out-of-order"] = true
					}
					m.requested[j].filled = true
					m.requested[j].size = blk.size
					m.requested[j].blk = blk
				}
			}
			if !known || op.K != 0 {
				flags["unrequested"] = true
			}
			if got != want {
				return &c13Violation{"C13/add-block/accept", fmt.Sprintf("step %d: AddBlock(%d) returned %v, model %v (unrequested blocks must be refused)", step, id, got, want)}, flags
			}
		case "pop":
			got := st.NextBlock()
			var want *fakeBlock
			if len(m.requested) > 0 && m.requested[0].filled {
				want = m.requested[0].blk
				m.lastSaved = m.requested[0].id
				m.processed = append(m.processed, m.requested[0].id)
				m.requested = m.requested[1:]
			}
			if want == nil && got != nil {
				return &c13Violation{"C13/next-block/not-ready", fmt.Sprintf("step %d: NextBlock returned a block while the head request is empty or missing", step)}, flags
			}
			if want != nil {
				if got == nil {
					return &c13Violation{"C13/next-block/missing", fmt.Sprintf("step %d: NextBlock returned nil though head block %d is buffered", step, want.id)}, flags
				}
				if got.(*fakeBlock) != want {
					return &c13Violation{"C13/next-block/order", fmt.Sprintf("step %d: NextBlock returned block %d, request order demands %d", step, got.(*fakeBlock).id, want.id)}, flags
				}
			}
		case "next":
			got, cnt := st.GetNextBlockToRequest()
			if len(m.toRequest) == 0 || len(m.requested) >= 10 || m.pending() > 100000000 {
				if len(m.toRequest) > 0 {
					if len(m.requested) >= 10 {
						flags["limit-count"] = true
					} else {
						flags["limit-bytes"] = true
					}
				}
				if got != nil {
					return &c13Violation{"C13/next-request/limit", fmt.Sprintf("step %d: GetNextBlockToRequest handed out a request with %d outstanding and %d bytes buffered", step, len(m.requested), m.pending())}, flags
				}
			} else {
				id := m.toRequest[0]
				m.toRequest = m.toRequest[1:]
				m.requested = append(m.requested, c13Req{id: id})
				if got == nil || *got != c13Hash(id) || cnt != len(m.requested) {
					return &c13Violation{"C13/next-request/order", fmt.Sprintf("step %d: GetNextBlockToRequest did not hand out block %d next", step, id)}, flags
				}
			}
		case "clear":
			if countFilled(m) > 0 {
				flags["clear-buffered"] = true
			}
			st.ClearBlockRequests(ctx)
			m.requested, m.toRequest = nil, nil
		case "clearafter":
			id, _ := c13pick(m, op.K, op.I)
			found := false
			for j := range m.requested {
				if m.requested[j].id == id {
					for _, r := range m.requested[j+1:] {
						if r.filled {
							flags["clear-buffered"] = true
						}
					}
					m.requested = m.requested[:j+1]
					m.toRequest = nil
					found = true
					flags["fork-pending"] = true
					break
				}
			}
			if !found {
				for j := range m.toRequest {
					if m.toRequest[j] == id {
						m.toRequest = m.toRequest[:j+1]
						flags["fork-pending"] = true
						break
					}
				}
			}
			st.ClearBlockRequestsAfter(ctx, c13Hash(id))
		case "setlast":
			// callers only set the last hash when no requests are outstanding
			if len(m.requested)+len(m.toRequest) == 0 {
				id, _ := c13pick(m, op.K, op.I)
				st.SetLastHash(c13Hash(id))
				m.lastSaved = id
			}
		}
		if v := check(step, op); v != nil {
			return v, flags
		}
	}
	return nil, flags
}

func countFilled(m *c13Model) int {
	n := 0
	for _, r := range m.requested {
		if r.filled {
			n++
		}
	}
	return n
}

func c13Nontrivial(flags map[string]bool) bool {
	return flags["clear-buffered"] || flags["out-of-order"] || flags["dup-delivery"] ||
		flags["limit-count"] || flags["limit-bytes"]
}

const c13Rule = "operation sequences over {announce, announce-with-wrong-parent, deliver(requested/queued/unknown/processed hash, 5 sizes up to >100MB), pop, next-request, clear, clear-after, set-last}; non-trivial = contains a clear with buffered blocks, an out-of-order or duplicate delivery, or hits the 10-request or 100MB limit; distinct by scenario hash"

func c13Labels(flags map[string]bool) []string {
	var l []string
	for k, v := range flags {
		if v {
			l = append(l, k)
		}
	}
	return l
}

func genC13(t *rapid.T) *C13Scenario {
	sc := &C13Scenario{PreRequested: rapid.SampledFrom([]int{0, 0, 3, 9, 10, 12}).Draw(t, "pre")}
	n := rapid.IntRange(1, 40).Draw(t, "n")
	for i := 0; i < n; i++ {
		kind := rapid.SampledFrom([]string{"ann", "ann", "ann", "annbad", "del", "del", "del", "del", "pop", "pop", "next", "next", "clear", "clearafter", "clearafter", "setlast"}).Draw(t, "op")
		op := C13Op{Op: kind}
		switch kind {
		case "annbad", "clearafter", "setlast":
			op.K = rapid.IntRange(0, 3).Draw(t, "k")
			op.I = rapid.IntRange(0, 12).Draw(t, "i")
		case "del":
			op.K = rapid.SampledFrom([]int{0, 0, 0, 0, 0, 1, 2, 3}).Draw(t, "k")
			op.I = rapid.IntRange(0, 12).Draw(t, "i")
			op.S = rapid.IntRange(0, len(c13Sizes)-1).Draw(t, "s")
		}
		sc.Ops = append(sc.Ops, op)
	}
	return sc
}

func TestC13Random(t *testing.T) {
	rep := verifkit.NewReport("C13", "TestC13Random", c13Rule)
	defer rep.Finish(t)
	if c13Replays(t, rep, "TestC13Random") {
		return
	}
	rapid.Check(t, func(rt *rapid.T) {
		sc := genC13(rt)
		v, flags := c13Run(sc, rep)
		rep.Case(verifkit.Hash(sc), c13Nontrivial(flags), c13Labels(flags)...)
		if c13Nontrivial(flags) && rep.WantSample() {
			rep.Sample(sc)
		}
		if v != nil {
			rep.Fail(v.key, v.what, sc)
			rt.Fatalf("%s: %s", v.key, v.what)
		}
	})
}

// c13Replays runs an explicit replay file or the committed regression files. Returns true if an
// explicit replay was requested (generation is skipped then).
func c13Replays(t *testing.T, rep *verifkit.Report, test string) bool {
	run := func(path string) {
		var sc C13Scenario
		if _, _, err := verifkit.LoadReplay(path, &sc); err != nil {
			t.Fatalf("replay %s: %v", path, err)
		}
		v, flags := c13Run(&sc, rep)
		rep.Case(verifkit.Hash(sc), c13Nontrivial(flags), "replay")
		if v != nil {
			rep.AddViolation(v.key, v.what, sc)
			t.Errorf("replay %s: %s: %s", path, v.key, v.what)
		}
	}
	if f := verifkit.ReplayFile(test); f != "" {
		run(f)
		return true
	}
	for _, f := range verifkit.RegressionFiles(test) {
		run(f)
	}
	return false
}

// TestC13Exhaustive enumerates every operation sequence up to a depth from three start states.
func TestC13Exhaustive(t *testing.T) {
	rep := verifkit.NewReport("C13", "TestC13Exhaustive", c13Rule+"; exhaustive sub-run: every sequence of the 15-letter alphabet below up to the stated depth from start states with 0, 9 and 12 announced blocks")
	defer rep.Finish(t)
	if verifkit.ReplayFile("TestC13Exhaustive") != "" {
		c13Replays(t, rep, "TestC13Exhaustive")
		return
	}
	alphabet := []C13Op{
		{Op: "ann"}, {Op: "annbad", K: 2}, {Op: "annbad", K: 0, I: 0},
		{Op: "del", K: 0, I: 0, S: 1}, {Op: "del", K: 0, I: 1, S: 1}, {Op: "del", K: 0, I: 0, S: 3}, {Op: "del", K: 0, I: 1, S: 3},
		{Op: "del", K: 2, S: 1}, {Op: "del", K: 1, I: 0, S: 1},
		{Op: "pop"}, {Op: "next"}, {Op: "clear"},
		{Op: "clearafter", K: 0, I: 0}, {Op: "clearafter", K: 1, I: 0}, {Op: "clearafter", K: 2},
	}
	depth := 4
	if verifkit.Tier() == "thorough" {
		depth = 5
	}
	rep.Notes["depth"] = fmt.Sprint(depth)
	rep.Notes["alphabet"] = fmt.Sprint(len(alphabet))
	var total int
	seenKeys := map[string]bool{}
	for _, pre := range []int{0, 9, 12} {
		idx := make([]int, depth)
		for {
			sc := &C13Scenario{PreRequested: pre, Ops: make([]C13Op, depth)}
			for i, a := range idx {
				sc.Ops[i] = alphabet[a]
			}
			v, flags := c13Run(sc, rep)
			total++
			nt := c13Nontrivial(flags)
			rep.Case(uint64(total), nt, c13Labels(flags)...)
			if nt && rep.WantSample() && total%977 == 0 {
				rep.Sample(sc)
			}
			if v != nil {
				// shrink: shortest failing prefix
				for n := 1; n <= depth; n++ {
					p := &C13Scenario{PreRequested: pre, Ops: sc.Ops[:n]}
					if pv, _ := c13Run(p, nil); pv != nil {
						rep.AddViolation(pv.key, pv.what, p)
						break
					}
				}
				if !seenKeys[v.key] {
					seenKeys[v.key] = true
					t.Errorf("%s: %s", v.key, v.what)
				}
				if len(seenKeys) > 8 {
					return
				}
			}
			// next index vector
			k := depth - 1
			for k >= 0 {
				idx[k]++
				if idx[k] < len(alphabet) {
					break
				}
				idx[k] = 0
				k--
			}
			if k < 0 {
				break
			}
		}
	}
	rep.Exhaustive = true
	if rep.WantSample() {
		rep.Sample(map[string]interface{}{"pre": 9, "ops": "all sequences of length depth over the alphabet"})
	}
}
