//go:build verif

package state

import "time"

// VerifShiftTime moves every stored time stamp of the trusted-connection state back by d, which is
// equivalent to advancing the clock by d (the code only compares time.Now() with stored stamps).
func (state *State) VerifShiftTime(d time.Duration) {
	state.lock.Lock()
	defer state.lock.Unlock()
	if state.connectedTime != nil {
		t := state.connectedTime.Add(-d)
		state.connectedTime = &t
	}
	if state.headersRequested != nil {
		t := state.headersRequested.Add(-d)
		state.headersRequested = &t
	}
	for _, r := range state.blocksRequested {
		r.time = r.time.Add(-d)
	}
}

// VerifPendingBlockSize exposes the buffered-byte total.
func (state *State) VerifPendingBlockSize() int {
	state.lock.Lock()
	defer state.lock.Unlock()
	return state.pendingBlockSize
}

// VerifShiftTime moves tx and request stamps of the mempool back by d.
func (memPool *MemPool) VerifShiftTime(d time.Duration) {
	memPool.mutex.Lock()
	defer memPool.mutex.Unlock()
	for _, tx := range memPool.txs {
		tx.time = tx.time.Add(-d)
	}
	for k, t := range memPool.requests {
		memPool.requests[k] = t.Add(-d)
	}
}

// VerifShiftTime moves the untrusted connection's stamps back by d.
func (state *UntrustedState) VerifShiftTime(d time.Duration) {
	state.lock.Lock()
	defer state.lock.Unlock()
	if state.connectedTime != nil {
		t := state.connectedTime.Add(-d)
		state.connectedTime = &t
	}
	if state.headersRequested != nil {
		t := state.headersRequested.Add(-d)
		state.headersRequested = &t
	}
}

// VerifShiftTime moves announcement stamps of a tracker back by d.
func (tracker *TxTracker) VerifShiftTime(d time.Duration) {
	tracker.mutex.Lock()
	defer tracker.mutex.Unlock()
	for k, t := range tracker.txids {
		tracker.txids[k] = t.Add(-d)
	}
}

// VerifTracked lists the tracked txids count.
func (tracker *TxTracker) VerifTracked() int {
	tracker.mutex.Lock()
	defer tracker.mutex.Unlock()
	return len(tracker.txids)
}
