//go:build verif

package client

// Scripted spynode service on loopback for the remote-client checks (C16, C17, C18).

import (
	"bytes"
	"context"
	"crypto/sha256"
	"fmt"
	"net"
	"sync"
	"time"

	"github.com/tokenized/config"
	"github.com/tokenized/logger"
	"github.com/tokenized/pkg/bitcoin"
)

func srvQuietCtx() context.Context { return logger.ContextWithNoLogger(context.Background()) }

var (
	srvServerKey = mustKey("verif-server-key")
	srvClientKey = mustKey("verif-client-key")
	srvOtherKey  = mustKey("verif-other-key")
)

func mustKey(seed string) bitcoin.Key {
	h := sha256.Sum256([]byte(seed))
	k, err := bitcoin.KeyFromNumber(h[:], bitcoin.MainNet)
	if err != nil {
		panic(err)
	}
	return k
}

// srvRecv is one message read by the server on one connection.
type srvRecv struct {
	msg *Message
	at  time.Time
}

// srvConn is the server side of one client connection.
type srvConn struct {
	index    int
	c        net.Conn
	register *Register
	regOK    bool // register signature verified under the configured client key
	mu       sync.Mutex
	recv     []srvRecv
	accepted time.Time // when the (valid) accept was written; zero = never
	readyAt  int       // index in recv of the ready message, -1 = none
	readErr  error
	done     chan struct{}
	wmu      sync.Mutex
}

// fakeServer is a scripted spynode service.
type fakeServer struct {
	ln     net.Listener
	mu     sync.Mutex
	conns  []*srvConn
	onConn func(sc *srvConn)
	closed bool
}

func newFakeServer(onConn func(sc *srvConn)) (*fakeServer, error) {
	ln, err := net.Listen("tcp", "127.0.0.1:0")
	if err != nil {
		return nil, err
	}
	s := &fakeServer{ln: ln, onConn: onConn}
	go s.acceptLoop()
	return s, nil
}

func (s *fakeServer) addr() string { return s.ln.Addr().String() }

func (s *fakeServer) close() {
	s.mu.Lock()
	s.closed = true
	conns := append([]*srvConn{}, s.conns...)
	s.mu.Unlock()
	_ = s.ln.Close()
	for _, c := range conns {
		_ = c.c.Close()
	}
}

func (s *fakeServer) connections() []*srvConn {
	s.mu.Lock()
	defer s.mu.Unlock()
	return append([]*srvConn{}, s.conns...)
}

func (s *fakeServer) acceptLoop() {
	for {
		c, err := s.ln.Accept()
		if err != nil {
			return
		}
		sc := &srvConn{c: c, readyAt: -1, done: make(chan struct{})}
		s.mu.Lock()
		sc.index = len(s.conns)
		s.conns = append(s.conns, sc)
		s.mu.Unlock()
		go func() {
			// the first message must be the register message
			_ = c.SetReadDeadline(time.Now().Add(5 * time.Second))
			m := &Message{}
			if err := m.Deserialize(c); err != nil {
				sc.readErr = err
				close(sc.done)
				_ = c.Close()
				return
			}
			_ = c.SetReadDeadline(time.Time{})
			sc.mu.Lock()
			sc.recv = append(sc.recv, srvRecv{m, time.Now()})
			sc.mu.Unlock()
			if reg, ok := m.Payload.(*Register); ok {
				sc.register = reg
				if sh, err := reg.SigHash(); err == nil {
					sc.regOK = reg.Signature.Verify(*sh, reg.Key) && reg.Key.Equal(srvClientKey.PublicKey())
				}
			}
			go sc.readLoop()
			if s.onConn != nil {
				s.onConn(sc)
			}
		}()
	}
}

func (sc *srvConn) readLoop() {
	defer close(sc.done)
	for {
		m := &Message{}
		if err := m.Deserialize(sc.c); err != nil {
			sc.mu.Lock()
			sc.readErr = err
			sc.mu.Unlock()
			return
		}
		sc.mu.Lock()
		sc.recv = append(sc.recv, srvRecv{m, time.Now()})
		if _, ok := m.Payload.(*Ready); ok && sc.readyAt < 0 {
			sc.readyAt = len(sc.recv) - 1
		}
		sc.mu.Unlock()
	}
}

func (sc *srvConn) received() []srvRecv {
	sc.mu.Lock()
	defer sc.mu.Unlock()
	return append([]srvRecv{}, sc.recv...)
}

// waitFor polls until pred holds on the received messages or the timeout passes.
func (sc *srvConn) waitFor(pred func([]srvRecv) bool, timeout time.Duration) bool {
	deadline := time.Now().Add(timeout)
	for {
		if pred(sc.received()) {
			return true
		}
		if time.Now().After(deadline) {
			return false
		}
		time.Sleep(2 * time.Millisecond)
	}
}

func (sc *srvConn) waitReady(timeout time.Duration) *Ready {
	var r *Ready
	sc.waitFor(func(rs []srvRecv) bool {
		for _, x := range rs {
			if rd, ok := x.msg.Payload.(*Ready); ok {
				r = rd
				return true
			}
		}
		return false
	}, timeout)
	return r
}

func (sc *srvConn) send(p MessagePayload) error {
	var buf bytes.Buffer
	if err := (Message{Payload: p}).Serialize(&buf); err != nil {
		return err
	}
	sc.wmu.Lock()
	defer sc.wmu.Unlock()
	_, err := sc.c.Write(buf.Bytes())
	return err
}

// accept builds the accept message for this connection. forge selects a forgery:
// "" valid; "random-key"; "other-hash" (session key for another hash); "sig-other-key";
// "sig-altered-counts" (signed, then counts changed); "server-root-key" (signed by the root key, not the session key).
func (sc *srvConn) accept(forge string) (*AcceptRegister, error) {
	if sc.register == nil {
		return nil, fmt.Errorf("no register message")
	}
	hash := sc.register.Hash
	sessionKey, err := bitcoin.NextKey(srvServerKey, hash)
	if err != nil {
		return nil, err
	}
	a := &AcceptRegister{Key: sessionKey.PublicKey(), PushDataCount: 3, UTXOCount: 5, MessageCount: 7}
	signKey := sessionKey
	switch forge {
	case "random-key":
		a.Key = srvOtherKey.PublicKey()
		signKey = srvOtherKey
	case "other-hash":
		var h2 bitcoin.Hash32
		copy(h2[:], hash[:])
		h2[0] ^= 0x55
		k2, err := bitcoin.NextKey(srvServerKey, h2)
		if err != nil {
			return nil, err
		}
		a.Key = k2.PublicKey()
		signKey = k2
	case "sig-other-key":
		signKey = srvOtherKey
	case "server-root-key":
		a.Key = srvServerKey.PublicKey()
		signKey = srvServerKey
	}
	sh, err := a.SigHash(hash)
	if err != nil {
		return nil, err
	}
	a.Signature, err = signKey.Sign(*sh)
	if err != nil {
		return nil, err
	}
	if forge == "sig-altered-counts" {
		a.MessageCount++
	}
	if forge == "sig-over-other-hash" {
		var h2 bitcoin.Hash32
		copy(h2[:], hash[:])
		h2[31] ^= 0x01
		sh2, _ := a.SigHash(h2)
		a.Signature, _ = signKey.Sign(*sh2)
	}
	return a, nil
}

func (sc *srvConn) sendAccept(forge string) error {
	a, err := sc.accept(forge)
	if err != nil {
		return err
	}
	if forge == "" {
		// stamp before writing: the client may answer before this goroutine runs again
		sc.mu.Lock()
		sc.accepted = time.Now()
		sc.mu.Unlock()
	}
	if err := sc.send(a); err != nil {
		return err
	}
	return nil
}

// ---------------------------------------------------------------------------------------------
// client side

type cliEvent struct {
	kind string // tx update headers insync accept message
	id   uint64
	txid bitcoin.Hash32
	at   time.Time
}

type cliHandler struct {
	mu        sync.Mutex
	events    []cliEvent
	client    *RemoteClient
	autoReady bool // declare ready with NextMessageID() on every accept, like cmd/client
	readyErr  []error
	// readyLag: the application asks for a repeat on its n-th accept by declaring ready with an id
	// that many below the client's counter (it was handed those notifications but did not keep them)
	readyLag []int
	accepts  int
	// slow application: every notification takes delay to handle; readyFromSeen: like cmd/client the
	// application declares ready with the id after the last notification it has handled
	delay         time.Duration
	readyFromSeen bool
	lastSeen      uint64
}

func (h *cliHandler) add(e cliEvent) {
	e.at = time.Now()
	h.mu.Lock()
	h.events = append(h.events, e)
	h.mu.Unlock()
}

func (h *cliHandler) seen(id uint64) {
	h.mu.Lock()
	d := h.delay
	h.mu.Unlock()
	if d > 0 {
		time.Sleep(d)
	}
	h.mu.Lock()
	h.lastSeen = id
	h.mu.Unlock()
}

func (h *cliHandler) HandleTx(ctx context.Context, tx *Tx) {
	h.add(cliEvent{kind: "tx", id: tx.ID, txid: *tx.Tx.TxHash()})
	h.seen(tx.ID)
}
func (h *cliHandler) HandleTxUpdate(ctx context.Context, u *TxUpdate) {
	h.add(cliEvent{kind: "update", id: u.ID, txid: u.TxID})
	h.seen(u.ID)
}
func (h *cliHandler) HandleHeaders(ctx context.Context, hs *Headers) {
	h.add(cliEvent{kind: "headers"})
}
func (h *cliHandler) HandleInSync(ctx context.Context) { h.add(cliEvent{kind: "insync"}) }
func (h *cliHandler) HandleMessage(ctx context.Context, p MessagePayload) {
	if _, ok := p.(*AcceptRegister); ok {
		h.add(cliEvent{kind: "accept"})
		if h.autoReady && h.client != nil {
			id := h.client.NextMessageID()
			h.mu.Lock()
			if h.readyFromSeen && h.accepts > 0 {
				id = h.lastSeen + 1
			}
			n := h.accepts
			h.accepts++
			if n < len(h.readyLag) && uint64(h.readyLag[n]) < id {
				id -= uint64(h.readyLag[n])
			}
			h.mu.Unlock()
			if err := h.client.Ready(ctx, id); err != nil {
				h.mu.Lock()
				h.readyErr = append(h.readyErr, err)
				h.mu.Unlock()
			}
		}
		return
	}
	h.add(cliEvent{kind: "message"})
}

func (h *cliHandler) snapshot() []cliEvent {
	h.mu.Lock()
	defer h.mu.Unlock()
	return append([]cliEvent{}, h.events...)
}

// testClient bundles a RemoteClient running against a fake server.
type testClient struct {
	c         *RemoteClient
	h1, h2    *cliHandler
	interrupt chan interface{}
	runErr    error
	runDone   chan struct{}
}

func newTestClient(addr string, ct ConnectionType, requestTimeout time.Duration, autoReady bool) (*testClient, error) {
	cfg := NewConfig(addr, srvServerKey.PublicKey(), srvClientKey, 100, ct)
	cfg.RequestTimeout = config.NewDuration(requestTimeout)
	cfg.RetryDelay = config.NewDuration(20 * time.Millisecond)
	cfg.RetryError = config.NewDuration(time.Hour)
	cfg.DialTimeout = config.NewDuration(2 * time.Second)
	cfg.HandshakeTimeout = config.NewDuration(3 * time.Second)
	cfg.MessageChannelTimeout = config.NewDuration(2 * time.Second)
	c, err := NewRemoteClient(cfg)
	if err != nil {
		return nil, err
	}
	tc := &testClient{c: c, interrupt: make(chan interface{}), runDone: make(chan struct{})}
	tc.h1 = &cliHandler{client: c, autoReady: autoReady}
	tc.h2 = &cliHandler{}
	c.RegisterHandler(tc.h1)
	c.RegisterHandler(tc.h2)
	go func() {
		tc.runErr = c.Run(srvQuietCtx(), tc.interrupt)
		close(tc.runDone)
	}()
	return tc, nil
}

func (tc *testClient) stop() bool {
	select {
	case <-tc.runDone:
		return true
	default:
	}
	close(tc.interrupt)
	select {
	case <-tc.runDone:
		return true
	case <-time.After(10 * time.Second):
		return false
	}
}
