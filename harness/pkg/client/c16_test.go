//go:build verif

package client

// C16 — Remote client calls return the response to their own request.

import (
	"crypto/sha256"
	"fmt"
	"sort"
	"sync"
	"testing"
	"time"

	"github.com/tokenized/pkg/bitcoin"
	"github.com/tokenized/pkg/expanded_tx"
	"github.com/tokenized/pkg/merchant_api"
	"github.com/tokenized/pkg/wire"
	"github.com/tokenized/spynode/internal/verifkit"

	"github.com/pkg/errors"
	"pgregory.net/rapid"
)

// C16Call is one planned synchronous call.
type C16Call struct {
	Kind    string `json:"kind"`     // gettx getheaders getheader sendtx savetxs reprocess markinvalid marknotinvalid feequotes
	Key     int    `json:"key"`      // selects the tx / header / height this call is about (distinct per kind)
	Behave  string `json:"behave"`   // answer reject silence late
	Code    uint32 `json:"code"`     // reject code
	Text    string `json:"text"`     // reject text
	Order   int    `json:"order"`    // position of the server's response among all responses
	DelayMs int    `json:"delay_ms"` // extra delay before this response
}

// C16Plan is a set of concurrent calls plus unsolicited server messages.
type C16Plan struct {
	TimeoutMs   int       `json:"timeout_ms"`
	Calls       []C16Call `json:"calls"`
	Unsolicited int       `json:"unsolicited"` // number of unsolicited responses interleaved
	// Retry: after the batch, these calls (indexes into Calls) are issued again one at a time and
	// answered at once: an earlier reject, time-out or late answer of the same key must leave nothing
	// behind that swallows the new response
	Retry []int `json:"retry,omitempty"`
	// Edge: call 0 is answered right at its own deadline (either outcome is fine for it) while all
	// other calls, issued half a time-out later, are still pending and must get their own outcomes
	Edge bool `json:"edge,omitempty"`
}

func c16Tx(key int) *wire.MsgTx {
	tx := wire.NewMsgTx(1)
	var h bitcoin.Hash32
	h[0], h[1] = byte(key), 0xc1
	tx.AddTxIn(wire.NewTxIn(wire.NewOutPoint(&h, uint32(key)), []byte{0x51}))
	tx.AddTxOut(wire.NewTxOut(uint64(1000+key), []byte{0x6a, byte(key)}))
	tx.AddTxOut(wire.NewTxOut(uint64(2000+key), []byte{0x51, byte(key)}))
	return tx
}

func c16Header(key int) wire.BlockHeader {
	h := wire.BlockHeader{Version: 1, Timestamp: uint32(1600000000 + key), Nonce: uint32(key)}
	h.PrevBlock[0] = byte(key)
	return h
}

func c16SaveHash(txs expanded_tx.AncestorTxs) bitcoin.Hash32 {
	hasher := sha256.New()
	for _, tx := range txs {
		id := *tx.Tx.TxHash()
		hasher.Write(id[:])
	}
	h, _ := bitcoin.NewHash32(hasher.Sum(nil))
	return *h
}

// c16Identify maps a request read by the server to (kind, key hash / height).
func c16Identify(m *Message) (string, bitcoin.Hash32, int, bool) {
	switch p := m.Payload.(type) {
	case *GetTx:
		return "gettx", p.TxID, 0, true
	case *GetHeaders:
		return "getheaders", bitcoin.Hash32{}, int(p.RequestHeight), true
	case *GetHeader:
		return "getheader", p.BlockHash, 0, true
	case *SendTx:
		return "sendtx", *p.Tx.TxHash(), 0, true
	case *SaveTxs:
		return "savetxs", c16SaveHash(p.Txs), 0, true
	case *ReprocessTx:
		return "reprocess", p.TxID, 0, true
	case *MarkHeaderInvalid:
		return "markinvalid", p.BlockHash, 0, true
	case *MarkHeaderNotInvalid:
		return "marknotinvalid", p.BlockHash, 0, true
	case *GetFeeQuotes:
		return "feequotes", bitcoin.Hash32{}, 0, true
	}
	return "", bitcoin.Hash32{}, 0, false
}

var c16MsgType = map[string]uint64{"gettx": MessageTypeGetTx, "getheaders": MessageTypeGetHeaders, "getheader": MessageTypeGetHeader, "sendtx": MessageTypeSendTx,
	"savetxs": MessageTypeSaveTxs, "reprocess": MessageTypeReprocessTx, "markinvalid": MessageTypeMarkHeaderInvalid,
	"marknotinvalid": MessageTypeMarkHeaderNotInvalid, "feequotes": MessageTypeGetFeeQuotes}

type c16Violation struct{ key, what string }

func c16KeyHash(c C16Call) bitcoin.Hash32 {
	switch c.Kind {
	case "gettx", "sendtx", "reprocess":
		return *c16Tx(c.Key).TxHash()
	case "savetxs":
		return c16SaveHash(expanded_tx.AncestorTxs{{Tx: c16Tx(c.Key)}, {Tx: c16Tx(c.Key + 100)}})
	case "getheader", "markinvalid", "marknotinvalid":
		h := c16Header(c.Key)
		return *h.BlockHash()
	}
	return bitcoin.Hash32{}
}

func c16Run(plan *C16Plan) (*c16Violation, map[string]bool) {
	flags := map[string]bool{}
	timeout := time.Duration(plan.TimeoutMs) * time.Millisecond
	n := len(plan.Calls)
	type arrived struct {
		kind   string
		hash   bitcoin.Hash32
		height int
	}
	var srvMu sync.Mutex
	var got []arrived
	allArrived := make(chan struct{})
	var once sync.Once
	srv, err := newFakeServer(func(sc *srvConn) {
		if err := sc.sendAccept(""); err != nil {
			return
		}
		// requests are identified as they come in
		seen := 0
		for {
			rs := sc.received()
			for ; seen < len(rs); seen++ {
				if k, h, ht, ok := c16Identify(rs[seen].msg); ok {
					srvMu.Lock()
					got = append(got, arrived{k, h, ht})
					if len(got) >= n {
						once.Do(func() { close(allArrived) })
					}
					srvMu.Unlock()
				}
			}
			select {
			case <-sc.done:
				return
			case <-time.After(2 * time.Millisecond):
			}
		}
	})
	if err != nil {
		return &c16Violation{"C16/harness/listen", err.Error()}, flags
	}
	defer srv.close()
	tc, err := newTestClient(srv.addr(), ConnectionTypeFull, timeout, true)
	if err != nil {
		return &c16Violation{"C16/harness/client", err.Error()}, flags
	}
	defer tc.stop()
	// wait for the handshake (ready seen by the server)
	deadline := time.Now().Add(30 * time.Second)
	var sc *srvConn
	for time.Now().Before(deadline) {
		if cs := srv.connections(); len(cs) > 0 && cs[0].waitReady(10*time.Millisecond) != nil {
			sc = cs[0]
			break
		}
		time.Sleep(5 * time.Millisecond)
	}
	if sc == nil {
		return &c16Violation{"C16/harness/handshake", "handshake did not complete"}, flags
	}
	ctx := srvQuietCtx()
	type outcome struct {
		err     error
		val     interface{}
		elapsed time.Duration
	}
	doCall := func(call C16Call) (o outcome) {
		t0 := time.Now()
		switch call.Kind {
		case "gettx":
			o.val, o.err = tc.c.GetTx(ctx, *c16Tx(call.Key).TxHash())
		case "getheaders":
			o.val, o.err = tc.c.GetHeaders(ctx, 1000+call.Key, 3)
		case "getheader":
			h := c16Header(call.Key)
			o.val, o.err = tc.c.GetHeader(ctx, *h.BlockHash())
		case "sendtx":
			o.err = tc.c.SendTx(ctx, c16Tx(call.Key))
		case "savetxs":
			o.err = tc.c.SaveTxs(ctx, expanded_tx.AncestorTxs{{Tx: c16Tx(call.Key)}, {Tx: c16Tx(call.Key + 100)}})
		case "reprocess":
			o.err = tc.c.ReprocessTx(ctx, *c16Tx(call.Key).TxHash(), nil)
		case "markinvalid":
			h := c16Header(call.Key)
			o.err = tc.c.MarkHeaderInvalid(ctx, *h.BlockHash())
		case "marknotinvalid":
			h := c16Header(call.Key)
			o.err = tc.c.MarkHeaderNotInvalid(ctx, *h.BlockHash())
		case "feequotes":
			o.val, o.err = tc.c.GetFeeQuotes(ctx)
		}
		o.elapsed = time.Since(t0)
		return o
	}
	results := make([]outcome, n)
	// when each call was issued and when the server wrote its response: on a loaded machine either
	// can slip by more than the request time-out, and then the outcome says nothing about the client
	callAt := make([]time.Time, n)
	sentAt := make([]time.Time, n)
	var tmu sync.Mutex
	var wg sync.WaitGroup
	start := time.Now()
	edge := plan.Edge && n >= 2
	for i, call := range plan.Calls {
		wg.Add(1)
		go func(i int, call C16Call) {
			defer wg.Done()
			if edge && i > 0 {
				time.Sleep(timeout / 2)
			}
			t0 := time.Now()
			tmu.Lock()
			callAt[i] = t0
			tmu.Unlock()
			var o outcome
			switch call.Kind {
			case "gettx":
				o.val, o.err = tc.c.GetTx(ctx, *c16Tx(call.Key).TxHash())
			case "getheaders":
				o.val, o.err = tc.c.GetHeaders(ctx, 1000+call.Key, 3)
			case "getheader":
				h := c16Header(call.Key)
				o.val, o.err = tc.c.GetHeader(ctx, *h.BlockHash())
			case "sendtx":
				o.err = tc.c.SendTx(ctx, c16Tx(call.Key))
			case "savetxs":
				o.err = tc.c.SaveTxs(ctx, expanded_tx.AncestorTxs{{Tx: c16Tx(call.Key)}, {Tx: c16Tx(call.Key + 100)}})
			case "reprocess":
				o.err = tc.c.ReprocessTx(ctx, *c16Tx(call.Key).TxHash(), nil)
			case "markinvalid":
				h := c16Header(call.Key)
				o.err = tc.c.MarkHeaderInvalid(ctx, *h.BlockHash())
			case "marknotinvalid":
				h := c16Header(call.Key)
				o.err = tc.c.MarkHeaderNotInvalid(ctx, *h.BlockHash())
			case "feequotes":
				o.val, o.err = tc.c.GetFeeQuotes(ctx)
			}
			o.elapsed = time.Since(t0)
			results[i] = o
		}(i, call)
	}
	// server: once every request arrived (or after a grace period), respond in the planned order
	select {
	case <-allArrived:
	case <-time.After(timeout/2 + 200*time.Millisecond):
	}
	order := make([]int, n)
	for i := range order {
		order[i] = i
	}
	sort.SliceStable(order, func(a, b int) bool { return plan.Calls[order[a]].Order < plan.Calls[order[b]].Order })
	unsolicited := plan.Unsolicited
	respond := func(call C16Call, idx int) {
		defer func() {
			tmu.Lock()
			sentAt[idx] = time.Now()
			tmu.Unlock()
		}()
		kh := c16KeyHash(call)
		switch call.Behave {
		case "reject":
			rj := &Reject{MessageType: c16MsgType[call.Kind], Hash: &kh, Code: RejectCode(call.Code), Message: call.Text}
			if call.Kind == "getheaders" {
				rj.Hash = nil // a headers request is keyed by height, which a reject cannot carry
			}
			_ = sc.send(rj)
			return
		}
		switch call.Kind {
		case "gettx":
			_ = sc.send(&BaseTx{Tx: c16Tx(call.Key)})
		case "getheaders":
			hs := &Headers{RequestHeight: int32(1000 + call.Key), StartHeight: uint32(1000 + call.Key)}
			for k := 0; k < 3; k++ {
				h := c16Header(call.Key*10 + k)
				hs.Headers = append(hs.Headers, &h)
			}
			_ = sc.send(hs)
		case "getheader":
			_ = sc.send(&Header{Header: c16Header(call.Key), BlockHeight: uint32(call.Key), IsMostPOW: true})
		case "feequotes":
			_ = sc.send(&FeeQuotes{FeeQuotes: merchant_api.FeeQuotes{{FeeType: merchant_api.FeeTypeStandard, MiningFee: merchant_api.Fee{Satoshis: 500, Bytes: 1000}, RelayFee: merchant_api.Fee{Satoshis: 250, Bytes: 1000}}}})
		default:
			_ = sc.send(&Accept{MessageType: c16MsgType[call.Kind], Hash: &kh})
		}
	}
	if edge {
		// call 0 gets its answer just as its time-out fires
		tmu.Lock()
		c0 := callAt[0]
		tmu.Unlock()
		if c0.IsZero() {
			c0 = start
		}
		time.Sleep(time.Until(c0.Add(timeout - time.Millisecond)))
		e := plan.Calls[0]
		e.Behave = "answer"
		respond(e, 0)
		flags["edge-answer"] = true
	}
	var late []C16Call
	var lateIdx []int
	for _, idx := range order {
		call := plan.Calls[idx]
		if edge && idx == 0 {
			continue // answered at its deadline above
		}
		if unsolicited > 0 {
			unsolicited--
			junk := c16Tx(200 + idx)
			jh := *junk.TxHash()
			_ = sc.send(&BaseTx{Tx: junk})
			_ = sc.send(&Accept{MessageType: MessageTypeSendTx, Hash: &jh})
			// a block announcement: request height zero means "not a response to a request"
			ah := c16Header(900 + idx)
			_ = sc.send(&Headers{RequestHeight: 0, StartHeight: 7777, Headers: []*wire.BlockHeader{&ah}})
			flags["unsolicited"] = true
		}
		if call.DelayMs > 0 {
			time.Sleep(time.Duration(call.DelayMs) * time.Millisecond)
		}
		switch call.Behave {
		case "silence":
			flags["timeout-case"] = true
		case "late":
			late = append(late, call)
			lateIdx = append(lateIdx, idx)
			flags["timeout-case"] = true
		default:
			respond(call, idx)
		}
	}
	if len(late) > 0 {
		lateFrom := start
		if edge {
			lateFrom = start.Add(timeout / 2)
		}
		time.Sleep(timeout + 300*time.Millisecond - time.Since(lateFrom))
		for _, idx := range lateIdx {
			call := plan.Calls[idx]
			call.Behave = "answer"
			respond(call, idx)
		}
		flags["late-answer"] = true
	}
	done := make(chan struct{})
	go func() { wg.Wait(); close(done) }()
	select {
	case <-done:
	case <-time.After(timeout + 5*time.Second):
		return &c16Violation{"C16/call-hung", "a synchronous call did not return within the request time-out plus 5 s"}, flags
	}
	kinds := map[string]bool{}
	slipped := map[int]bool{}
	for i, call := range plan.Calls {
		kinds[call.Kind] = true
		o := results[i]
		d := fmt.Sprintf("call %d %s(key %d, server behaviour %s, response order %d)", i, call.Kind, call.Key, call.Behave, call.Order)
		tmu.Lock()
		ca, sa := callAt[i], sentAt[i]
		tmu.Unlock()
		if edge && i == 0 {
			if o.err != nil && errors.Cause(o.err) != ErrTimeout {
				return &c16Violation{"C16/" + call.Kind + "/edge-outcome", fmt.Sprintf("%s: answered at its deadline and returned err=%v (neither the answer nor a time-out)", d, o.err)}, flags
			}
			continue
		}
		switch call.Behave {
		case "late":
			// only a verdict if the response was written well after this call's own deadline (the
			// client's timer starts a little after the call was issued: queueing and sending come first)
			if !sa.IsZero() && sa.Before(ca.Add(timeout+150*time.Millisecond)) {
				flags["slipped-under-load"] = true
				slipped[i] = true
				continue
			}
		case "answer", "reject":
			// only a verdict if the response was written after the call was issued and well inside
			// this call's own time-out
			if sa.IsZero() || sa.Before(ca) || sa.After(ca.Add(timeout*6/10)) {
				flags["slipped-under-load"] = true
				slipped[i] = true
				continue
			}
		}
		switch call.Behave {
		case "silence", "late":
			if errors.Cause(o.err) != ErrTimeout {
				return &c16Violation{"C16/" + call.Kind + "/timeout-outcome", fmt.Sprintf("%s: got no response but returned (%v, err=%v) instead of a time-out", d, o.val != nil, o.err)}, flags
			}
			if o.elapsed < timeout-5*time.Millisecond {
				return &c16Violation{"C16/" + call.Kind + "/timeout-early", fmt.Sprintf("%s: timed out after %v, configured time-out %v", d, o.elapsed, timeout)}, flags
			}
		case "reject":
			re, ok := errors.Cause(o.err).(RejectError)
			if !ok {
				return &c16Violation{"C16/" + call.Kind + "/reject-outcome", fmt.Sprintf("%s: server rejected with code %d %q, call returned err=%v", d, call.Code, call.Text, o.err)}, flags
			}
			if uint32(re.Code) != call.Code || re.Description != call.Text {
				return &c16Violation{"C16/" + call.Kind + "/reject-content", fmt.Sprintf("%s: reject error carries (%d,%q), server sent (%d,%q)", d, re.Code, re.Description, call.Code, call.Text)}, flags
			}
		default:
			if o.err != nil {
				return &c16Violation{"C16/" + call.Kind + "/answer-outcome", fmt.Sprintf("%s: server answered but the call returned err=%v after %v", d, o.err, o.elapsed)}, flags
			}
			switch call.Kind {
			case "gettx":
				tx, _ := o.val.(*wire.MsgTx)
				if tx == nil || *tx.TxHash() != *c16Tx(call.Key).TxHash() {
					return &c16Violation{"C16/gettx/wrong-response", d + ": returned a transaction that is not the one asked for"}, flags
				}
			case "getheaders":
				hs, _ := o.val.(*Headers)
				if hs == nil || int(hs.RequestHeight) != 1000+call.Key || len(hs.Headers) != 3 || *hs.Headers[0].BlockHash() != *c16HeaderHash(call.Key * 10) {
					return &c16Violation{"C16/getheaders/wrong-response", d + ": returned headers of another request"}, flags
				}
			case "getheader":
				h, _ := o.val.(*Header)
				want := c16Header(call.Key)
				if h == nil || *h.Header.BlockHash() != *want.BlockHash() {
					return &c16Violation{"C16/getheader/wrong-response", d + ": returned another header"}, flags
				}
			case "feequotes":
				fq, _ := o.val.(merchant_api.FeeQuotes)
				if len(fq) != 1 || fq[0].MiningFee.Satoshis != 500 {
					return &c16Violation{"C16/feequotes/wrong-response", d + ": returned other fee quotes"}, flags
				}
			}
		}
	}
	if len(kinds) >= 2 && n >= 3 {
		flags["mixed-concurrent"] = true
	}
	// retry phase: one call at a time, answered as soon as the request is seen
	if len(plan.Retry) > 0 {
		time.Sleep(60 * time.Millisecond) // let responses of the batch that are still under way arrive first
	}
	for _, idx := range plan.Retry {
		if idx < 0 || idx >= n || slipped[idx] {
			continue // (a response of the batch written too late could still answer the retry)
		}
		call := plan.Calls[idx]
		srvMu.Lock()
		before := len(got)
		srvMu.Unlock()
		resc := make(chan outcome, 1)
		issued := time.Now()
		go func() { resc <- doCall(call) }()
		arrivedInTime := false
		for time.Since(issued) < timeout*4/10 {
			srvMu.Lock()
			l := len(got)
			srvMu.Unlock()
			if l > before {
				arrivedInTime = true
				break
			}
			time.Sleep(time.Millisecond)
		}
		call.Behave = "answer"
		respond(call, idx)
		wrote := time.Now()
		var o outcome
		select {
		case o = <-resc:
		case <-time.After(timeout + 5*time.Second):
			return &c16Violation{"C16/call-hung", "a retried call did not return within the request time-out plus 5 s"}, flags
		}
		flags["retry:"+plan.Calls[idx].Behave] = true
		if !arrivedInTime || wrote.After(issued.Add(timeout*6/10)) {
			flags["slipped-under-load"] = true
			continue
		}
		if o.err != nil {
			return &c16Violation{"C16/" + call.Kind + "/retry-outcome", fmt.Sprintf("call %d %s(key %d) was issued again after the batch (first time: server behaviour %s) and answered at once, but returned err=%v after %v", idx, call.Kind, call.Key, plan.Calls[idx].Behave, o.err, o.elapsed)}, flags
		}
	}
	return nil, flags
}

func c16HeaderHash(key int) *bitcoin.Hash32 {
	h := c16Header(key)
	return h.BlockHash()
}

func genC16(t *rapid.T) *C16Plan {
	plan := &C16Plan{TimeoutMs: rapid.SampledFrom([]int{150, 250, 400}).Draw(t, "timeout"), Unsolicited: rapid.IntRange(0, 2).Draw(t, "unsolicited")}
	n := rapid.IntRange(1, 7).Draw(t, "n")
	usedKey := map[string]bool{}
	fee := false
	for i := 0; i < n; i++ {
		kind := rapid.SampledFrom([]string{"gettx", "gettx", "getheaders", "getheader", "sendtx", "savetxs", "reprocess", "markinvalid", "marknotinvalid", "feequotes"}).Draw(t, "kind")
		if kind == "feequotes" {
			if fee {
				continue
			}
			fee = true
		}
		key := rapid.IntRange(1, 30).Draw(t, "key")
		// keys must be distinct per routing class (txid-keyed kinds share txids, header-keyed share hashes)
		class := kind
		if usedKey[fmt.Sprintf("%s/%d", class, key)] {
			continue
		}
		usedKey[fmt.Sprintf("%s/%d", class, key)] = true
		call := C16Call{Kind: kind, Key: key, Order: rapid.IntRange(0, 20).Draw(t, "order"), DelayMs: rapid.SampledFrom([]int{0, 0, 0, 3, 15}).Draw(t, "delay")}
		call.Behave = rapid.SampledFrom([]string{"answer", "answer", "answer", "answer", "reject", "silence", "late"}).Draw(t, "behave")
		if call.Behave == "reject" {
			call.Code = rapid.Uint32Range(0, 4).Draw(t, "code")
			call.Text = rapid.SampledFrom([]string{"", "not found", "invalid tx", "x"}).Draw(t, "text")
		}
		plan.Calls = append(plan.Calls, call)
	}
	// a reject of a headers-by-height request names no height: it is only addressable while it is
	// the only pending headers request
	nh := 0
	for _, c := range plan.Calls {
		if c.Kind == "getheaders" {
			nh++
		}
	}
	if nh > 1 {
		for i := range plan.Calls {
			if plan.Calls[i].Kind == "getheaders" && plan.Calls[i].Behave == "reject" {
				plan.Calls[i].Behave, plan.Calls[i].Code, plan.Calls[i].Text = "answer", 0, ""
			}
		}
	}
	if len(plan.Calls) == 0 {
		plan.Calls = []C16Call{{Kind: "gettx", Key: 1, Behave: "answer"}}
	}
	plan.Edge = len(plan.Calls) >= 2 && rapid.IntRange(0, 4).Draw(t, "edge") == 0
	for k, c := 0, rapid.IntRange(0, 2).Draw(t, "nretry"); k < c; k++ {
		plan.Retry = append(plan.Retry, rapid.IntRange(0, len(plan.Calls)-1).Draw(t, "retry"))
	}
	return plan
}

const c16Rule = "a real RemoteClient.Run against a scripted loopback server that completes the handshake with the real server key; plan = 1..7 concurrent synchronous calls of mixed kinds with distinct keys, per call the server answers, rejects (code, text) or stays silent / answers after the time-out, in a generated response order with small delays, in a fifth of the plans with one call answered exactly at its deadline while the others are still pending, plus unsolicited responses, then up to two of the calls issued again one at a time and answered at once; request time-out 150-400 ms; oracle: every call returns exactly the planned outcome for its own key; non-trivial = >= 3 concurrent calls of >= 2 kinds, or a time-out among answered calls; distinct by plan hash"

func c16Nontrivial(f map[string]bool) bool { return f["mixed-concurrent"] || f["timeout-case"] }

func TestC16Calls(t *testing.T) {
	rep := verifkit.NewReport("C16", "TestC16Calls", c16Rule)
	defer rep.Finish(t)
	replay := func(path string) {
		var plan C16Plan
		if _, _, err := verifkit.LoadReplay(path, &plan); err != nil {
			t.Fatalf("replay %s: %v", path, err)
		}
		v, f := c16Run(&plan)
		rep.Case(verifkit.Hash(plan), c16Nontrivial(f), "replay")
		if v != nil {
			if verifkit.Known(v.key) {
				rep.Exclude(v.key)
				return
			}
			rep.AddViolation(v.key, v.what, plan)
			t.Errorf("replay %s: %s: %s", path, v.key, v.what)
		}
	}
	if f := verifkit.ReplayFile("TestC16Calls"); f != "" {
		replay(f)
		return
	}
	for _, f := range verifkit.RegressionFiles("TestC16Calls") {
		replay(f)
	}
	rapid.Check(t, func(rt *rapid.T) {
		plan := genC16(rt)
		if verifkit.Known("C16/getheader/answer-outcome") {
			// exclusion by construction: header-by-hash answers are never routed (known finding)
			kept := plan.Calls[:0]
			for _, c := range plan.Calls {
				if c.Kind == "getheader" && c.Behave == "answer" {
					rep.Exclude("C16/getheader/answer-outcome")
					continue
				}
				kept = append(kept, c)
			}
			plan.Calls = kept
			if len(plan.Calls) == 0 {
				rt.Skip("nothing left")
			}
		}
		v, f := c16Run(plan)
		rep.Case(verifkit.Hash(plan), c16Nontrivial(f), flagList16(f)...)
		if c16Nontrivial(f) && rep.WantSample() {
			rep.Sample(plan)
		}
		if v != nil {
			if verifkit.Known(v.key) {
				rep.Exclude(v.key)
				return
			}
			rep.Fail(v.key, v.what, plan)
			rt.Fatalf("%s: %s", v.key, v.what)
		}
	})
}

func flagList16(f map[string]bool) []string {
	var l []string
	for k, v := range f {
		if v {
			l = append(l, k)
		}
	}
	return l
}

// ---------------------------------------------------------------------------------------------
// outputs lookup

// C16Outputs is an outpoint list for GetOutputs: (tx key, output index) pairs.
type C16Outputs struct {
	Points [][2]int `json:"points"`
}

func c16OutputsRun(sc *C16Outputs) (*c16Violation, map[string]bool) {
	flags := map[string]bool{}
	srv, err := newFakeServer(func(conn *srvConn) {
		if err := conn.sendAccept(""); err != nil {
			return
		}
		seen := 0
		for {
			rs := conn.received()
			for ; seen < len(rs); seen++ {
				if g, ok := rs[seen].msg.Payload.(*GetTx); ok {
					for k := 1; k <= 30; k++ {
						if *c16Tx(k).TxHash() == g.TxID {
							_ = conn.send(&BaseTx{Tx: c16Tx(k)})
						}
					}
				}
			}
			select {
			case <-conn.done:
				return
			case <-time.After(time.Millisecond):
			}
		}
	})
	if err != nil {
		return &c16Violation{"C16/harness/listen", err.Error()}, flags
	}
	defer srv.close()
	tc, err := newTestClient(srv.addr(), ConnectionTypeFull, 5*time.Second, true)
	if err != nil {
		return &c16Violation{"C16/harness/client", err.Error()}, flags
	}
	defer tc.stop()
	deadline := time.Now().Add(30 * time.Second)
	ok := false
	for time.Now().Before(deadline) {
		if cs := srv.connections(); len(cs) > 0 && cs[0].waitReady(10*time.Millisecond) != nil {
			ok = true
			break
		}
	}
	if !ok {
		return &c16Violation{"C16/harness/handshake", "handshake did not complete"}, flags
	}
	var ops []wire.OutPoint
	bad := false
	seenTx := map[int]int{}
	for _, p := range sc.Points {
		tx := c16Tx(p[0])
		ops = append(ops, wire.OutPoint{Hash: *tx.TxHash(), Index: uint32(p[1])})
		if p[1] >= len(tx.TxOut) {
			bad = true
			flags["out-of-range-index"] = true
		}
		seenTx[p[0]]++
		if seenTx[p[0]] > 1 {
			flags["repeated-txid"] = true
		}
	}
	var utxos []bitcoin.UTXO
	var gerr error
	panicked := ""
	func() {
		defer func() {
			if r := recover(); r != nil {
				panicked = fmt.Sprint(r)
			}
		}()
		utxos, gerr = tc.c.GetOutputs(srvQuietCtx(), ops)
	}()
	if panicked != "" {
		return &c16Violation{"C16/getoutputs/panic", fmt.Sprintf("GetOutputs(%v) panicked: %s", sc.Points, panicked)}, flags
	}
	if bad {
		if gerr == nil {
			return &c16Violation{"C16/getoutputs/bad-index-no-error", fmt.Sprintf("GetOutputs(%v) with an out-of-range index returned (%d outputs, nil error)", sc.Points, len(utxos))}, flags
		}
		return nil, flags
	}
	if gerr != nil {
		return &c16Violation{"C16/getoutputs/error", fmt.Sprintf("GetOutputs(%v) failed: %v", sc.Points, gerr)}, flags
	}
	if len(utxos) != len(sc.Points) {
		return &c16Violation{"C16/getoutputs/count", fmt.Sprintf("GetOutputs(%v) returned %d outputs", sc.Points, len(utxos))}, flags
	}
	for i, p := range sc.Points {
		want := c16Tx(p[0]).TxOut[p[1]]
		if utxos[i].Value != want.Value || string(utxos[i].LockingScript) != string(want.LockingScript) || utxos[i].Index != uint32(p[1]) {
			return &c16Violation{"C16/getoutputs/wrong-output", fmt.Sprintf("GetOutputs(%v): result %d has value %d, outpoint (tx %d, index %d) has value %d", sc.Points, i, utxos[i].Value, p[0], p[1], want.Value)}, flags
		}
	}
	return nil, flags
}

func TestC16Outputs(t *testing.T) {
	rep := verifkit.NewReport("C16", "TestC16Outputs", "outputs lookup against a scripted server that serves transactions by hash: outpoint lists of 1..5 entries over 3 two-output transactions with repeated txids in any order and out-of-range indexes; oracle: per outpoint, in order, that outpoint's value and script, or a non-nil error (never nil,nil); non-trivial = a repeated txid or an out-of-range index; distinct by list")
	defer rep.Finish(t)
	run := func(sc *C16Outputs) *c16Violation {
		v, f := c16OutputsRun(sc)
		rep.Case(verifkit.Hash(sc), f["repeated-txid"] || f["out-of-range-index"], flagList16(f)...)
		if v != nil && verifkit.Known(v.key) {
			rep.Exclude(v.key)
			return nil
		}
		return v
	}
	if f := verifkit.ReplayFile("TestC16Outputs"); f != "" {
		var sc C16Outputs
		if _, _, err := verifkit.LoadReplay(f, &sc); err != nil {
			t.Fatal(err)
		}
		if v := run(&sc); v != nil {
			rep.AddViolation(v.key, v.what, sc)
			t.Errorf("%s: %s", v.key, v.what)
		}
		return
	}
	for _, f := range verifkit.RegressionFiles("TestC16Outputs") {
		var sc C16Outputs
		if _, _, err := verifkit.LoadReplay(f, &sc); err == nil {
			if v := run(&sc); v != nil {
				rep.AddViolation(v.key, v.what, sc)
				t.Errorf("%s: %s", v.key, v.what)
			}
		}
	}
	rapid.Check(t, func(rt *rapid.T) {
		sc := &C16Outputs{}
		for i, n := 0, rapid.IntRange(1, 5).Draw(rt, "n"); i < n; i++ {
			sc.Points = append(sc.Points, [2]int{rapid.IntRange(1, 3).Draw(rt, "tx"), rapid.SampledFrom([]int{0, 0, 1, 1, 2, 5}).Draw(rt, "idx")})
		}
		if rep.WantSample() && len(sc.Points) >= 3 {
			rep.Sample(sc)
		}
		if v := run(sc); v != nil {
			rep.Fail(v.key, v.what, sc)
			rt.Fatalf("%s: %s", v.key, v.what)
		}
	})
}
