//go:build verif

package client

// C20 — Decoding hostile bytes fails cleanly (client-protocol messages).

import (
	"bytes"
	"encoding/hex"
	"fmt"
	"strings"
	"testing"

	"github.com/tokenized/spynode/internal/verifkit"

	"pgregory.net/rapid"
)

const c20Rule = "valid encodings of generated messages in which, at every byte offset, one byte is replaced by a hostile varint (65535; then 0xfc, 2^32-1, 2^32, 2^63, 2^64-1 where the first pass stayed within budget), plus random tails behind every valid type code; oracle: no panic and bytes allocated <= 16KiB + 32*len(input), calibrated on the unmutated encoding (must stay below half); non-trivial = input differs from the valid encoding and passes the type-code stage; distinct by input hash"

// C20Input is the replay form of one hostile input.
type C20Input struct {
	Hex  string `json:"hex"`
	Note string `json:"note,omitempty"`
}

func c20DecodeOnce(b []byte) {
	m := &Message{}
	_ = m.Deserialize(bytes.NewReader(b))
}

var c20Worker = verifkit.NewWorker("^TestC20Worker$")

// TestC20Worker is the decoding child process (does nothing unless spawned by the harness).
func TestC20Worker(t *testing.T) {
	if !verifkit.IsWorker() {
		t.Skip("worker entry point")
	}
	verifkit.ServeWorker(map[string]func([]byte){"msg": c20DecodeOnce}, 3<<30)
}

// c20Judge decodes b in the worker; returns a violation (keyed by root cause) or nil, and whether
// the input was flagged at all (also when the finding is known).
func c20Judge(b []byte, note string, rep *verifkit.Report) (*c15Violation, bool) {
	o, _, died, dmsg, dsite, err := c20Worker.Do("D", "msg", b)
	if err != nil {
		rep.Label("worker-infra-error", 1) // inconclusive for this input, never a violation
		rep.Notes["worker-infra-error"] = err.Error()
		return nil, true
	}
	if died {
		key := "C20/fatal/" + verifkit.SiteKey(dsite)
		if verifkit.Known(key) {
			rep.Exclude(key)
			return nil, true
		}
		if strings.HasSuffix(key, "/unknown") || strings.HasSuffix(key, "/unattributed") {
			// the cause could not be attributed to a function (no usable stack in the crash report or
			// the heap profile): it may be one of the known dependency findings, so no verdict
			rep.Label("cause-not-attributed", 1)
			return nil, true
		}
		return &c15Violation{key, fmt.Sprintf("decoding %d bytes (%s) killed the process: %s (at %s)", len(b), note, dmsg, dsite)}, true
	}
	if o.Panicked {
		key := "C20/panic/" + verifkit.SiteKey(o.PanicSite)
		if verifkit.Known(key) {
			rep.Exclude(key)
			return nil, true
		}
		if strings.HasSuffix(key, "/unknown") || strings.HasSuffix(key, "/unattributed") {
			// the cause could not be attributed to a function (no usable stack in the crash report or
			// the heap profile): it may be one of the known dependency findings, so no verdict
			rep.Label("cause-not-attributed", 1)
			return nil, true
		}
		return &c15Violation{key, fmt.Sprintf("decoding %d bytes (%s) panicked: %s", len(b), note, o.PanicMsg)}, true
	}
	if o.Alloc > verifkit.AllocBound(len(b)) {
		_, site, died, _, dsite, _ := c20Worker.Do("T", "msg", b)
		if died {
			site = dsite
		}
		key := "C20/alloc/" + verifkit.SiteKey(site)
		if verifkit.Known(key) {
			rep.Exclude(key)
			return nil, true
		}
		if strings.HasSuffix(key, "/unknown") || strings.HasSuffix(key, "/unattributed") {
			// the cause could not be attributed to a function (no usable stack in the crash report or
			// the heap profile): it may be one of the known dependency findings, so no verdict
			rep.Label("cause-not-attributed", 1)
			return nil, true
		}
		return &c15Violation{key, fmt.Sprintf("decoding %d bytes (%s) allocated %d bytes (budget %d) at %s", len(b), note, o.Alloc, verifkit.AllocBound(len(b)), site)}, true
	}
	return nil, false
}

func c20TypeWidth(b []byte) int {
	if len(b) == 0 {
		return 0
	}
	switch b[0] {
	case 0xfd:
		return 3
	case 0xfe:
		return 5
	case 0xff:
		return 9
	}
	return 1
}

func TestC20Hostile(t *testing.T) {
	rep := verifkit.NewReport("C20", "TestC20Hostile", c20Rule)
	defer rep.Finish(t)
	jr := verifkit.OpenJournal("TestC20Hostile")
	defer jr.Done()
	defer c20Worker.Close()
	runOne := func(in *C20Input) *c15Violation {
		b, _ := hex.DecodeString(in.Hex)
		jr.Note(in.Hex)
		v, _ := c20Judge(b, in.Note, rep)
		return v
	}
	if f := verifkit.ReplayFile("TestC20Hostile"); f != "" {
		var in C20Input
		if _, _, err := verifkit.LoadReplay(f, &in); err != nil {
			t.Fatal(err)
		}
		rep.Case(verifkit.Hash(in.Hex), true, "replay")
		if v := runOne(&in); v != nil {
			rep.AddViolation(v.key, v.what, &in)
			t.Errorf("%s: %s", v.key, v.what)
		}
		return
	}
	for _, f := range verifkit.RegressionFiles("TestC20Hostile") {
		var in C20Input
		if _, _, err := verifkit.LoadReplay(f, &in); err == nil {
			rep.Case(verifkit.Hash(in.Hex), true, "replay")
			if v := runOne(&in); v != nil {
				rep.AddViolation(v.key, v.what, &in)
				t.Errorf("regression %s: %s: %s", f, v.key, v.what)
			}
		}
	}
	types := c15Types()
	seenKeys := map[string]bool{}
	calibFail := 0
	record := func(v *c15Violation, in *C20Input) {
		if v == nil || seenKeys[v.key] {
			return
		}
		seenKeys[v.key] = true
		rep.AddViolation(v.key, v.what, in)
		t.Errorf("%s: %s", v.key, v.what)
	}
	rapid.Check(t, func(rt *rapid.T) {
		tc := rapid.SampledFrom(types).Draw(rt, "type")
		gen := VerifGenerators[tc]
		if gen == nil {
			rt.Skip("no generator")
		}
		m := gen(rt)
		valid, err := c15Encode(m)
		if err != nil {
			rt.Skip("not encodable")
		}
		name := NameForMessageType(tc)
		// calibration: the valid encoding must stay below half the budget
		o, _, cdied, _, _, _ := c20Worker.Do("D", "msg", valid)
		if cdied || o.Panicked || o.Alloc > verifkit.AllocBound(len(valid))/2 {
			calibFail++
			rep.Label("calibration-failed:"+name, 1)
			rep.Notes["calibration-"+name] = fmt.Sprintf("valid %d-byte %s allocated %d (half budget %d) panic=%v", len(valid), name, o.Alloc, verifkit.AllocBound(len(valid))/2, o.Panicked)
			return
		}
		rep.Case(verifkit.HashBytes(valid), false, "calibration")
		tw := c20TypeWidth(valid)
		step := 1
		if len(valid) > 700 {
			step = 1 + len(valid)/350
		}
		for i := tw; i < len(valid); i++ {
			if i > tw+200 && (i-tw)%step != 0 {
				continue
			}
			in := &C20Input{Hex: hex.EncodeToString(verifkit.Splice(valid, i, verifkit.HostileModerate)), Note: fmt.Sprintf("%s offset %d := 65535", name, i)}
			b, _ := hex.DecodeString(in.Hex)
			jr.Note(in.Hex)
			v, flagged := c20Judge(b, in.Note, rep)
			rep.Case(verifkit.HashBytes(b), true, "pass1")
			record(v, in)
			if flagged {
				rep.Label("pass1-flagged-offsets", 1)
				continue // do not try extreme values where the claim drives allocation
			}
			for _, ext := range verifkit.HostileExtreme {
				in := &C20Input{Hex: hex.EncodeToString(verifkit.Splice(valid, i, ext)), Note: fmt.Sprintf("%s offset %d := %x", name, i, ext)}
				b, _ := hex.DecodeString(in.Hex)
				jr.Note(in.Hex)
				v, _ := c20Judge(b, in.Note, rep)
				rep.Case(verifkit.HashBytes(b), true, "pass2")
				record(v, in)
			}
		}
		// random tails behind the type code
		for k := 0; k < 8; k++ {
			tail := rapid.SliceOfN(rapid.Byte(), 0, 64).Draw(rt, "tail")
			b := append(append([]byte{}, valid[:tw]...), tail...)
			in := &C20Input{Hex: hex.EncodeToString(b), Note: name + " random tail"}
			jr.Note(in.Hex)
			v, _ := c20Judge(b, in.Note, rep)
			rep.Case(verifkit.HashBytes(b), len(tail) > 0, "tail")
			record(v, in)
		}
		if rep.WantSample() && len(valid) > 12 && len(valid) < 200 {
			rep.Sample(map[string]interface{}{"type": name, "valid_hex": hex.EncodeToString(valid), "mutations": "every offset x {65535, 0xfc, 2^32-1, 2^32, 2^63, 2^64-1}"})
		}
	})
	rep.Notes["worker"] = fmt.Sprintf("spawned=%d deaths=%d", c20Worker.Spawned, c20Worker.Deaths)
	if calibFail > 0 {
		rep.Notes["calibration"] = fmt.Sprintf("%d valid encodings exceeded half the budget (see labels); those cases were skipped", calibFail)
	}
}
