//go:build verif

package client

// C18 — Remote client authenticates the server and gates traffic on the handshake.

import (
	"fmt"
	"sync"
	"testing"
	"time"

	"github.com/tokenized/pkg/bitcoin"
	"github.com/tokenized/spynode/internal/verifkit"

	"github.com/pkg/errors"
	"pgregory.net/rapid"
)

// C18Forge is a forged-accept case.
type C18Forge struct {
	Forge       string `json:"forge"`                  // random-key other-hash sig-other-key sig-altered-counts server-root-key sig-over-other-hash
	Control     bool   `json:"control"`                // control connection type instead of full
	DataFirst   bool   `json:"data_first"`             // also send a tx notification right after the forged accept
	DataBefore  bool   `json:"data_before,omitempty"`  // send a tx notification and an in-sync message before the forged accept
	PendingCall bool   `json:"pending_call,omitempty"` // the application has a request queued when the forged accept arrives
}

func c18ForgeRun(fc *C18Forge) (*c16Violation, map[string]bool) {
	flags := map[string]bool{"forged:" + fc.Forge: true}
	var mu sync.Mutex
	var hashes []bitcoin.Hash32
	regBad := ""
	srv, err := newFakeServer(func(sc *srvConn) {
		mu.Lock()
		if sc.register != nil {
			hashes = append(hashes, sc.register.Hash)
			if !sc.regOK {
				regBad = fmt.Sprintf("register on connection %d is not validly signed by the configured client key", sc.index)
			}
		} else {
			regBad = "first message on a connection was not a register message"
		}
		mu.Unlock()
		if fc.DataBefore {
			_ = sc.send(c17TxMsg(1))
			_ = sc.send(&InSync{})
			time.Sleep(30 * time.Millisecond)
		}
		_ = sc.sendAccept(fc.Forge)
		if fc.DataFirst {
			_ = sc.send(c17TxMsg(1))
			_ = sc.send(&InSync{})
		}
	})
	if err != nil {
		return &c16Violation{"C18/harness/listen", err.Error()}, flags
	}
	defer srv.close()
	ct := ConnectionTypeFull
	if fc.Control {
		ct = ConnectionTypeControl
	}
	tc, err := newTestClient(srv.addr(), ct, 300*time.Millisecond, true)
	if err != nil {
		return &c16Violation{"C18/harness/client", err.Error()}, flags
	}
	if fc.PendingCall {
		go func() { _, _ = tc.c.GetTx(srvQuietCtx(), *c16Tx(7).TxHash()) }()
	}
	// the connection must fail: Run returns an error, or the client closes the connection
	failed := false
	select {
	case <-tc.runDone:
		failed = true
	case <-time.After(1500 * time.Millisecond):
	}
	if !failed {
		// not yet: a loaded machine gets more time before "the connection was kept" is believed (a
		// client that really keeps the connection keeps it however long one waits)
		deadline := time.Now().Add(8 * time.Second)
		for !failed && time.Now().Before(deadline) {
			select {
			case <-tc.runDone:
				failed = true
			case <-time.After(50 * time.Millisecond):
			}
			for _, sc := range srv.connections() {
				select {
				case <-sc.done:
					failed = true
				default:
				}
			}
		}
	}
	accepted := tc.c.IsAccepted(srvQuietCtx())
	ev1, ev2 := tc.h1.snapshot(), tc.h2.snapshot()
	if !failed {
		for _, sc := range srv.connections() {
			select {
			case <-sc.done:
				failed = true
			default:
			}
		}
	}
	tc.stop()
	mu.Lock()
	defer mu.Unlock()
	if regBad != "" {
		return &c16Violation{"C18/register/invalid", regBad}, flags
	}
	if accepted {
		return &c16Violation{"C18/forged-accept/accepted", fmt.Sprintf("a forged accept (%s, control=%v) left the client reporting the connection as accepted", fc.Forge, fc.Control)}, flags
	}
	if fc.PendingCall {
		// the queued request must not be written to a connection whose accept was forged
		time.Sleep(50 * time.Millisecond)
		for _, sc := range srv.connections() {
			for k, r := range sc.received() {
				if typ := r.msg.Payload.Type(); !IsHandshakeType(typ) {
					return &c16Violation{"C18/gate/request-before-handshake", fmt.Sprintf("connection %d with a forged accept (%s): message %d is a %s request written although the handshake never completed", sc.index, fc.Forge, k, NameForMessageType(typ))}, flags
				}
			}
		}
	}
	if len(ev1)+len(ev2) > 0 {
		return &c16Violation{"C18/forged-accept/data-reached-handlers", fmt.Sprintf("after a forged accept (%s) handlers received %d notifications (first: %s)", fc.Forge, len(ev1)+len(ev2), append(ev1, ev2...)[0].kind)}, flags
	}
	if !failed {
		return &c16Violation{"C18/forged-accept/connection-kept", fmt.Sprintf("after a forged accept (%s) neither did Run return nor was the connection closed within 9.5 s", fc.Forge)}, flags
	}
	for i := range hashes {
		for j := i + 1; j < len(hashes); j++ {
			if hashes[i] == hashes[j] {
				return &c16Violation{"C18/register/hash-reused", fmt.Sprintf("connections %d and %d registered with the same session hash", i, j)}, flags
			}
		}
	}
	return nil, flags
}

// C18Gate is a gating case: application calls at generated points relative to the handshake.
type C18Gate struct {
	Control      bool  `json:"control"`
	AcceptDelay  int   `json:"accept_delay_ms"` // server waits this long before sending the accept
	ReadyDelay   int   `json:"ready_delay_ms"`  // application waits this long after the accept before Ready (full type)
	CallAt       []int `json:"call_at_ms"`      // application issues a GetTx call this long after start
	DropAt       int   `json:"drop_at_ms"`      // server drops the first connection at this time (0 = never)
	DropKeepOpen bool  `json:"drop_keep_read"`  // poison with an undecodable byte instead of closing
	TimeoutMs    int   `json:"timeout_ms"`
	// ReadyTwice: the application declares ready a second time a few milliseconds after the first
	// (full type); AcceptDelay2: the server delays its accept on every later connection as well
	ReadyTwice   bool `json:"ready_twice,omitempty"`
	AcceptDelay2 int  `json:"accept_delay2_ms,omitempty"`
}

func c18GateRun(g *C18Gate) (*c16Violation, map[string]bool) {
	flags := map[string]bool{}
	// flags set by the server and application goroutines go to a map of their own and are merged on return
	var fmu sync.Mutex
	flags2 := flagSetter{m: map[string]bool{}, mu: &fmu}
	defer func() {
		fmu.Lock()
		for k := range flags2.m {
			flags[k] = true
		}
		fmu.Unlock()
	}()
	start := time.Now()
	var mu sync.Mutex
	regBad := ""
	var hashes []bitcoin.Hash32
	srv, err := newFakeServer(func(sc *srvConn) {
		mu.Lock()
		if sc.register == nil || !sc.regOK {
			regBad = fmt.Sprintf("register on connection %d missing or not validly signed by the configured client key", sc.index)
		} else {
			hashes = append(hashes, sc.register.Hash)
		}
		mu.Unlock()
		if sc.index == 0 && g.DropAt > 0 && g.DropAt <= g.AcceptDelay {
			time.Sleep(time.Until(start.Add(time.Duration(g.DropAt) * time.Millisecond)))
			if g.DropKeepOpen {
				_, _ = sc.c.Write([]byte{0xfd, 0xff, 0xff}) // an unknown message type: undecodable
			} else {
				_ = sc.c.Close()
			}
			return
		}
		if sc.index == 0 {
			time.Sleep(time.Duration(g.AcceptDelay) * time.Millisecond)
		} else if g.AcceptDelay2 > 0 {
			time.Sleep(time.Duration(g.AcceptDelay2) * time.Millisecond)
			flags2.set("later-accept-delayed")
		}
		_ = sc.sendAccept("")
		if sc.index == 0 && g.DropAt > g.AcceptDelay {
			time.Sleep(time.Until(start.Add(time.Duration(g.DropAt) * time.Millisecond)))
			if g.DropKeepOpen {
				_, _ = sc.c.Write([]byte{0xfd, 0xff, 0xff})
			} else {
				_ = sc.c.Close()
			}
			return
		}
		// answer every GetTx so that answered calls return nil
		seen := 0
		for {
			rs := sc.received()
			for ; seen < len(rs); seen++ {
				if gt, ok := rs[seen].msg.Payload.(*GetTx); ok {
					for k := 1; k <= 40; k++ {
						if *c16Tx(k).TxHash() == gt.TxID {
							_ = sc.send(&BaseTx{Tx: c16Tx(k)})
						}
					}
				}
			}
			select {
			case <-sc.done:
				return
			case <-time.After(time.Millisecond):
			}
		}
	})
	if err != nil {
		return &c16Violation{"C18/harness/listen", err.Error()}, flags
	}
	defer srv.close()
	ct := ConnectionTypeFull
	if g.Control {
		ct = ConnectionTypeControl
	}
	timeout := time.Duration(g.TimeoutMs) * time.Millisecond
	tc, err := newTestClient(srv.addr(), ct, timeout, false)
	if err != nil {
		return &c16Violation{"C18/harness/client", err.Error()}, flags
	}
	defer tc.stop()
	// application: declare ready ReadyDelay after each accept (full type)
	stopApp := make(chan struct{})
	defer close(stopApp)
	if !g.Control {
		go func() {
			handled := 0
			for {
				n := 0
				for _, e := range tc.h1.snapshot() {
					if e.kind == "accept" {
						n++
					}
				}
				if n > handled {
					handled = n
					time.Sleep(time.Duration(g.ReadyDelay) * time.Millisecond)
					_ = tc.c.Ready(srvQuietCtx(), tc.c.NextMessageID())
					if g.ReadyTwice {
						time.Sleep(5 * time.Millisecond)
						_ = tc.c.Ready(srvQuietCtx(), tc.c.NextMessageID())
						flags2.set("ready-twice")
					}
				}
				select {
				case <-stopApp:
					return
				case <-time.After(2 * time.Millisecond):
				}
			}
		}()
	}
	type res struct {
		key int
		err error
		at  time.Duration
	}
	results := make(chan res, len(g.CallAt))
	for i, at := range g.CallAt {
		go func(i, at int) {
			time.Sleep(time.Until(start.Add(time.Duration(at) * time.Millisecond)))
			_, err := tc.c.GetTx(srvQuietCtx(), *c16Tx(i + 1).TxHash())
			results <- res{i + 1, err, time.Since(start)}
		}(i, at)
	}
	outcomes := map[int]error{}
	for range g.CallAt {
		select {
		case r := <-results:
			outcomes[r.key] = r.err
		case <-time.After(timeout + 8*time.Second):
			return &c16Violation{"C18/gate/call-hung", "a call did not return"}, flags
		}
	}
	time.Sleep(30 * time.Millisecond)
	mu.Lock()
	defer mu.Unlock()
	if regBad != "" {
		return &c16Violation{"C18/register/invalid", regBad}, flags
	}
	for i := range hashes {
		for j := i + 1; j < len(hashes); j++ {
			if hashes[i] == hashes[j] {
				return &c16Violation{"C18/register/hash-reused", fmt.Sprintf("connections %d and %d registered with the same session hash", i, j)}, flags
			}
		}
	}
	// per connection: nothing but handshake-type messages before that connection's handshake completed
	transmitted := map[int]bool{}
	for _, sc := range srv.connections() {
		rs := sc.received()
		complete := false
		sc.mu.Lock()
		acceptedAt := sc.accepted
		sc.mu.Unlock()
		for k, r := range rs {
			typ := r.msg.Payload.Type()
			if _, ok := r.msg.Payload.(*Ready); ok && !g.Control {
				complete = true
				continue
			}
			if g.Control && !acceptedAt.IsZero() && !r.at.Before(acceptedAt) {
				complete = true
			}
			if !complete && !IsHandshakeType(typ) {
				when := "before its accept was sent"
				if !acceptedAt.IsZero() {
					when = "before its ready message"
				}
				if !g.Control || acceptedAt.IsZero() || r.at.Before(acceptedAt) {
					flags["early-request-seen"] = true
					return &c16Violation{"C18/gate/request-before-handshake", fmt.Sprintf("connection %d: message %d is a %s request, written %s (accept delay %d ms, ready delay %d ms, drop at %d ms)", sc.index, k, NameForMessageType(typ), when, g.AcceptDelay, g.ReadyDelay, g.DropAt)}, flags
				}
			}
			if gt, ok := r.msg.Payload.(*GetTx); ok && complete {
				for key := 1; key <= len(g.CallAt); key++ {
					if *c16Tx(key).TxHash() == gt.TxID {
						transmitted[key] = true
					}
				}
			}
		}
	}
	for key, err := range outcomes {
		if err == nil && !transmitted[key] {
			return &c16Violation{"C18/gate/reported-sent-not-written", fmt.Sprintf("call %d returned nil but its request never reached the server on a connection with a completed handshake", key)}, flags
		}
		if err != nil {
			c := errors.Cause(err)
			if c != ErrTimeout && c != ErrConnectionClosed {
				// other errors are failures of the call, which the property allows only as time-outs
				if !transmitted[key] {
					flags["call-error:"+c.Error()] = true
				}
			}
			flags["call-failed"] = true
		} else {
			flags["call-answered"] = true
		}
	}
	for _, at := range g.CallAt {
		if at < g.AcceptDelay+g.ReadyDelay || (g.DropAt > 0 && at >= g.DropAt) {
			flags["call-outside-handshake"] = true
		}
	}
	return nil, flags
}

const c18Rule = "forged accepts (random key, key for another hash, signature by another key, by the root key, over another hash, counts altered after signing) for both connection types, optionally preceded or followed by data, or with an application request queued when the forged accept arrives; gating plans (accept delay on the first and on later connections, ready delay, in a third of the full-type plans a second ready declaration, calls at generated times relative to connect/accept/ready, connection dropped or poisoned at a generated time); oracle: forged accept => not accepted, nothing reaches handlers, the connection fails; register validly signed with a fresh hash per connection; per connection only handshake-type messages before its handshake completed; a call that returned nil was written after a handshake; non-trivial = every forged case, and gating cases with a call issued while no handshake is complete; distinct by case hash"

func TestC18Forged(t *testing.T) {
	rep := verifkit.NewReport("C18", "TestC18Forged", c18Rule)
	defer rep.Finish(t)
	run := func(fc *C18Forge) *c16Violation {
		v, f := c18ForgeRun(fc)
		rep.Case(verifkit.Hash(fc), true, flagList16(f)...)
		if v != nil && verifkit.Known(v.key) {
			rep.Exclude(v.key)
			return nil
		}
		return v
	}
	if f := verifkit.ReplayFile("TestC18Forged"); f != "" {
		var fc C18Forge
		if _, _, err := verifkit.LoadReplay(f, &fc); err != nil {
			t.Fatal(err)
		}
		if v := run(&fc); v != nil {
			rep.AddViolation(v.key, v.what, fc)
			t.Errorf("%s: %s", v.key, v.what)
		}
		return
	}
	// exhaustive over the small forged-accept grid (cases are independent: run 12 at a time)
	seen := map[string]bool{}
	var grid []*C18Forge
	for _, forge := range []string{"random-key", "other-hash", "sig-other-key", "sig-altered-counts", "server-root-key", "sig-over-other-hash"} {
		for _, control := range []bool{false, true} {
			for _, data := range []int{0, 1, 2} {
				grid = append(grid, &C18Forge{Forge: forge, Control: control, DataFirst: data == 1, DataBefore: data == 2})
			}
			// with a request queued by the application (the tear-down is a race: three tries)
			for k := 0; k < 3; k++ {
				grid = append(grid, &C18Forge{Forge: forge, Control: control, PendingCall: true, DataFirst: k == 1})
			}
		}
	}
	type outcome struct {
		v *c16Violation
		f map[string]bool
	}
	results := make([]outcome, len(grid))
	sem := make(chan struct{}, 12)
	var wg sync.WaitGroup
	for i := range grid {
		wg.Add(1)
		sem <- struct{}{}
		go func(i int) {
			defer wg.Done()
			defer func() { <-sem }()
			v, f := c18ForgeRun(grid[i])
			results[i] = outcome{v, f}
		}(i)
	}
	wg.Wait()
	for i, fc := range grid {
		v := results[i].v
		rep.Case(verifkit.Hash(fc), true, flagList16(results[i].f)...)
		if v != nil && verifkit.Known(v.key) {
			rep.Exclude(v.key)
			v = nil
		}
		if v != nil && !seen[v.key] {
			seen[v.key] = true
			rep.AddViolation(v.key, v.what, fc)
			t.Errorf("%s: %s", v.key, v.what)
		}
		if rep.WantSample() {
			rep.Sample(fc)
		}
	}
	// control: a valid accept must be accepted (guards against a harness that rejects everything)
	{
		srv, err := newFakeServer(func(sc *srvConn) { _ = sc.sendAccept("") })
		if err == nil {
			tc, err := newTestClient(srv.addr(), ConnectionTypeFull, 300*time.Millisecond, true)
			if err == nil {
				ok := false
				for i := 0; i < 3000 && !ok; i++ {
					ok = tc.c.IsAccepted(srvQuietCtx())
					time.Sleep(5 * time.Millisecond)
				}
				tc.stop()
				if !ok {
					rep.AddViolation("C18/valid-accept-rejected", "a valid accept was not accepted (control case)", nil)
					t.Errorf("valid accept rejected")
				}
			}
			srv.close()
		}
	}
}

func TestC18Gating(t *testing.T) {
	rep := verifkit.NewReport("C18", "TestC18Gating", c18Rule)
	defer rep.Finish(t)
	nt := func(f map[string]bool) bool { return f["call-outside-handshake"] }
	replay := func(path string) {
		var g C18Gate
		if _, _, err := verifkit.LoadReplay(path, &g); err != nil {
			t.Fatalf("replay %s: %v", path, err)
		}
		// the window is racy: repeat
		for k := 0; k < 8; k++ {
			v, f := c18GateRun(&g)
			rep.Case(verifkit.Hash(g)+uint64(k), nt(f), "replay")
			if v != nil {
				if verifkit.Known(v.key) {
					rep.Exclude(v.key)
					continue
				}
				rep.AddViolation(v.key, v.what, g)
				t.Errorf("replay %s: %s: %s", path, v.key, v.what)
				return
			}
		}
	}
	if f := verifkit.ReplayFile("TestC18Gating"); f != "" {
		replay(f)
		return
	}
	for _, f := range verifkit.RegressionFiles("TestC18Gating") {
		replay(f)
	}
	rapid.Check(t, func(rt *rapid.T) {
		g := &C18Gate{Control: rapid.Bool().Draw(rt, "control"), AcceptDelay: rapid.SampledFrom([]int{0, 20, 80}).Draw(rt, "acceptdelay"),
			ReadyDelay: rapid.SampledFrom([]int{0, 30, 100}).Draw(rt, "readydelay"), TimeoutMs: rapid.SampledFrom([]int{200, 350}).Draw(rt, "timeout"),
			DropKeepOpen: rapid.Bool().Draw(rt, "poison")}
		if rapid.IntRange(0, 2).Draw(rt, "drop") > 0 {
			g.DropAt = rapid.SampledFrom([]int{10, 40, 60, 120, 200}).Draw(rt, "dropat")
		}
		g.ReadyTwice = !g.Control && rapid.IntRange(0, 2).Draw(rt, "readytwice") == 0
		if g.DropAt > 0 {
			g.AcceptDelay2 = rapid.SampledFrom([]int{0, 0, 60, 150}).Draw(rt, "acceptdelay2")
		}
		for i, n := 0, rapid.IntRange(1, 4).Draw(rt, "ncalls"); i < n; i++ {
			g.CallAt = append(g.CallAt, rapid.SampledFrom([]int{0, 5, 25, 50, 90, 130, 190, 260}).Draw(rt, "callat"))
		}
		var v *c16Violation
		var f map[string]bool
		for k := 0; k < 3; k++ { // racy window: three repetitions per plan
			v, f = c18GateRun(g)
			if v != nil {
				break
			}
		}
		rep.Case(verifkit.Hash(g), nt(f), flagList16(f)...)
		if nt(f) && rep.WantSample() {
			rep.Sample(g)
		}
		if v != nil {
			if verifkit.Known(v.key) {
				rep.Exclude(v.key)
				return
			}
			rep.Fail(v.key, v.what, g)
			rt.Fatalf("%s: %s", v.key, v.what)
		}
	})
}
