//go:build verif

package client

// Native fuzz targets (thorough tier): byte-level exploration of the client message decoder.

import (
	"bytes"
	"fmt"
	"testing"

	"github.com/tokenized/spynode/internal/verifkit"
)

// fuzzSkipTypes embed a dependency transaction or signature decoder, whose known findings
// (C20/.../dep:tokenized/pkg/wire and .../bitcoin) would end every campaign at once.
var fuzzSkipTypes = map[uint64]bool{MessageTypeBaseTx: true, MessageTypeTx: true, MessageTypeSendTx: true,
	MessageTypeSendExpandedTx: true, MessageTypeSaveTxs: true, MessageTypePostMerkleProofs: true,
	MessageTypeRegister: true, MessageTypeAcceptRegister: true}

// fuzzMessageBody is the oracle shared by the fuzz target and its replay test. Returns "" or a
// description of the violation.
func fuzzMessageBody(data []byte) string {
	if len(data) == 0 {
		return ""
	}
	t := uint64(data[0])
	if data[0] >= 0xfd {
		return "" // multi-byte type codes are all unknown types
	}
	if fuzzSkipTypes[t] {
		return ""
	}
	var m *Message
	var r *bytes.Reader
	var err error
	alloc := verifkit.QuietAlloc(verifkit.AllocBound(len(data)), func() {
		m = &Message{}
		r = bytes.NewReader(data)
		err = m.Deserialize(r)
	})
	if alloc > verifkit.AllocBound(len(data)) {
		return fmt.Sprintf("C20/alloc: decoding %d bytes of type %d allocated %d bytes (budget %d)", len(data), t, alloc, verifkit.AllocBound(len(data)))
	}
	if err != nil {
		return ""
	}
	consumed := len(data) - r.Len()
	// accepted input: re-encoding must be stable and decode to the same value
	b2, err := c15Encode(m.Payload)
	if err != nil {
		return fmt.Sprintf("C15/fuzz: a decoded %s cannot be encoded: %v", m.Name(), err)
	}
	m2, left, derr, pan := c15Decode(b2)
	if pan != "" || derr != nil || left != 0 {
		return fmt.Sprintf("C15/fuzz: encode(decode(x)) of a %s does not decode cleanly (err=%v panic=%q unread=%d; x consumed %d bytes)", m.Name(), derr, pan, left, consumed)
	}
	if d := eqv(addrable(m.Payload), addrable(m2.Payload), m.Name()); d != "" {
		return fmt.Sprintf("C15/fuzz: decode(encode(decode(x))) differs from decode(x) at %s", d)
	}
	b3, err := c15Encode(m2.Payload)
	if err != nil || !bytes.Equal(b2, b3) {
		return fmt.Sprintf("C15/fuzz: re-encoding of a %s is not stable", m.Name())
	}
	return ""
}

func FuzzMessage(f *testing.F) {
	for _, tc := range c15Types() {
		f.Add([]byte{byte(tc)})
		f.Add([]byte{byte(tc), 0, 0, 0, 0, 0, 0, 0, 0, 0, 0, 0, 0, 0, 0, 0, 0, 0, 0, 0, 0, 0, 0, 0, 0, 0, 0, 0, 0, 0, 0, 0, 0, 1, 5})
		f.Add([]byte{byte(tc), 0xfd, 0xff, 0xff})
		f.Add([]byte{byte(tc), 0xfe, 0xff, 0xff, 0xff, 0xff})
		f.Add([]byte{byte(tc), 0xff, 0xff, 0xff, 0xff, 0xff, 0xff, 0xff, 0xff, 0xff})
		f.Add([]byte{byte(tc), 0x02, 0x03, 0xaa, 0xbb, 0xcc, 0x01, 0xdd})
	}
	f.Fuzz(func(t *testing.T, data []byte) {
		if v := fuzzMessageBody(data); v != "" {
			t.Fatal(v)
		}
	})
}

// TestFuzzMessageReplay re-runs a saved fuzz input through the same oracle.
func TestFuzzMessageReplay(t *testing.T) {
	rep := verifkit.NewReport("C20", "TestFuzzMessageReplay", "replay of inputs found by the native fuzz campaign FuzzMessage")
	defer rep.Finish(t)
	run := func(path string) {
		var in C20Input
		if _, _, err := verifkit.LoadReplay(path, &in); err != nil {
			return
		}
		b := []byte{}
		fmt.Sscanf(in.Hex, "%x", &b)
		rep.Case(verifkit.HashBytes(b), true, "replay")
		if v := fuzzMessageBody(b); v != "" {
			rep.AddViolation("C20/fuzz/FuzzMessage", v, &in)
			t.Errorf("%s", v)
		}
	}
	if f := verifkit.ReplayFile("TestFuzzMessageReplay"); f != "" {
		run(f)
		return
	}
	for _, f := range verifkit.RegressionFiles("TestFuzzMessageReplay") {
		run(f)
	}
}
