//go:build verif

package client

// Value generators for every client-protocol payload type (used by C15, C20 and, through the
// exported wrappers, by the storage package's tx-record checks).

import (
	"bytes"
	"crypto/sha256"
	"math/big"

	"github.com/tokenized/pkg/bitcoin"
	"github.com/tokenized/pkg/bsor"
	"github.com/tokenized/pkg/expanded_tx"
	"github.com/tokenized/pkg/merchant_api"
	"github.com/tokenized/pkg/merkle_proof"
	"github.com/tokenized/pkg/wire"

	"pgregory.net/rapid"
)

var verifKeys []bitcoin.Key

func init() {
	for i := 1; i <= 6; i++ {
		h := sha256.Sum256([]byte{byte(i), 'k', 'e', 'y'})
		k, err := bitcoin.KeyFromNumber(h[:], bitcoin.MainNet)
		if err != nil {
			panic(err)
		}
		verifKeys = append(verifKeys, k)
	}
}

// VerifBoundaryU64 draws integers concentrated on varint width boundaries.
func VerifBoundaryU64(t *rapid.T, label string) uint64 {
	if rapid.Bool().Draw(t, label+"-b") {
		return rapid.SampledFrom([]uint64{0, 1, 0xfc, 0xfd, 0xfe, 0xffff, 0x10000, 0xffffffff,
			0x100000000, 1 << 63, ^uint64(0)}).Draw(t, label)
	}
	return rapid.Uint64().Draw(t, label)
}

func verifU32(t *rapid.T, label string) uint32 {
	if rapid.Bool().Draw(t, label+"-b") {
		return rapid.SampledFrom([]uint32{0, 1, 0xfc, 0xfd, 0xffff, 0x10000, 0xffffffff}).Draw(t, label)
	}
	return rapid.Uint32().Draw(t, label)
}

func verifHash32(t *rapid.T, label string) bitcoin.Hash32 {
	var h bitcoin.Hash32
	switch rapid.IntRange(0, 9).Draw(t, label+"-k") {
	case 0:
	case 1:
		for i := range h {
			h[i] = 0xff
		}
	default:
		copy(h[:], rapid.SliceOfN(rapid.Byte(), 32, 32).Draw(t, label))
	}
	return h
}

func verifHash20(t *rapid.T, label string) bitcoin.Hash20 {
	var h bitcoin.Hash20
	copy(h[:], rapid.SliceOfN(rapid.Byte(), 20, 20).Draw(t, label))
	return h
}

func verifBytes(t *rapid.T, label string, max int) []byte {
	n := rapid.SampledFrom([]int{0, 0, 1, 2, 20, 33, 75, 76, 252, 253, 254, 300}).Draw(t, label+"-n")
	if n > max {
		n = max
	}
	return rapid.SliceOfN(rapid.Byte(), n, n).Draw(t, label)
}

func verifPubKey(t *rapid.T, label string) bitcoin.PublicKey {
	return verifKeys[rapid.IntRange(0, len(verifKeys)-1).Draw(t, label)].PublicKey()
}

var verifCurveN, _ = new(big.Int).SetString("fffffffffffffffffffffffffffffffebaaedce6af48a03bbfd25e8cd0364141", 16)

// verifSignature draws a canonical (low-S) signature with R,S of any byte length 1..32.
func verifSignature(t *rapid.T, label string) bitcoin.Signature {
	half := new(big.Int).Rsh(verifCurveN, 1)
	draw := func(l string, limit *big.Int) big.Int {
		n := rapid.SampledFrom([]int{1, 2, 31, 32, 32, 32}).Draw(t, l+"-n")
		b := rapid.SliceOfN(rapid.Byte(), n, n).Draw(t, l)
		v := new(big.Int).SetBytes(b)
		v.Mod(v, limit)
		if v.Sign() == 0 {
			v.SetInt64(1)
		}
		return *v
	}
	return bitcoin.Signature{R: draw(label+"-r", verifCurveN), S: draw(label+"-s", half)}
}

// VerifTx draws an arbitrary transaction (0..4 inputs, 0..4 outputs, arbitrary scripts).
func VerifTx(t *rapid.T, label string) *wire.MsgTx {
	tx := wire.NewMsgTx(rapid.Int32().Draw(t, label+"-ver"))
	nin := rapid.IntRange(0, 4).Draw(t, label+"-nin")
	for i := 0; i < nin; i++ {
		h := verifHash32(t, label+"-inh")
		in := wire.NewTxIn(wire.NewOutPoint(&h, verifU32(t, label+"-ini")), verifBytes(t, label+"-ins", 300))
		in.Sequence = rapid.Uint32().Draw(t, label+"-seq")
		tx.AddTxIn(in)
	}
	nout := rapid.IntRange(0, 4).Draw(t, label+"-nout")
	for i := 0; i < nout; i++ {
		tx.AddTxOut(wire.NewTxOut(VerifBoundaryU64(t, label+"-val"), verifBytes(t, label+"-outs", 300)))
	}
	tx.LockTime = rapid.Uint32().Draw(t, label+"-lock")
	return tx
}

func verifHeader(t *rapid.T, label string) wire.BlockHeader {
	return wire.BlockHeader{Version: rapid.Int32().Draw(t, label+"-v"), PrevBlock: verifHash32(t, label+"-p"),
		MerkleRoot: verifHash32(t, label+"-m"), Timestamp: rapid.Uint32().Draw(t, label+"-t"),
		Bits: rapid.Uint32().Draw(t, label+"-b"), Nonce: rapid.Uint32().Draw(t, label+"-n")}
}

// VerifMerkleBranch computes, independently of the code under test, the Bitcoin merkle root of
// txids and the sibling path of index: path = sibling hashes bottom-up where a sibling exists,
// dupLayers = 1-based layers where the node is paired with itself.
func VerifMerkleBranch(txids []bitcoin.Hash32, index int) (root bitcoin.Hash32, path []bitcoin.Hash32, dupLayers []uint64) {
	level := append([]bitcoin.Hash32{}, txids...)
	layer := uint64(1)
	idx := index
	for len(level) > 1 {
		if len(level)%2 == 1 {
			if idx == len(level)-1 {
				dupLayers = append(dupLayers, layer)
			}
			level = append(level, level[len(level)-1])
		}
		if !(len(dupLayers) > 0 && dupLayers[len(dupLayers)-1] == layer) {
			path = append(path, level[idx^1])
		}
		next := make([]bitcoin.Hash32, 0, len(level)/2)
		for i := 0; i < len(level); i += 2 {
			var b [64]byte
			copy(b[:32], level[i][:])
			copy(b[32:], level[i+1][:])
			h := sha256.Sum256(b[:])
			next = append(next, bitcoin.Hash32(sha256.Sum256(h[:])))
		}
		level = next
		idx /= 2
		layer++
	}
	return level[0], path, dupLayers
}

// VerifMerkleProof draws a structurally valid client merkle proof (consistent with a real tree).
func VerifMerkleProof(t *rapid.T, label string) (*MerkleProof, bitcoin.Hash32) {
	n := rapid.IntRange(1, 11).Draw(t, label+"-n")
	txids := make([]bitcoin.Hash32, n)
	for i := range txids {
		txids[i] = sha256.Sum256([]byte{byte(i), byte(n), byte(rapid.IntRange(0, 255).Draw(t, label+"-salt"))})
	}
	idx := rapid.IntRange(0, n-1).Draw(t, label+"-i")
	root, path, dups := VerifMerkleBranch(txids, idx)
	hdr := verifHeader(t, label+"-h")
	hdr.MerkleRoot = root
	return &MerkleProof{Index: uint64(idx), Path: path, BlockHeader: hdr, DuplicatedIndexes: dups}, txids[idx]
}

func verifTxState(t *rapid.T, label string) TxState {
	s := TxState{Safe: rapid.Bool().Draw(t, label+"-safe"), UnSafe: rapid.Bool().Draw(t, label+"-unsafe"),
		Cancelled: rapid.Bool().Draw(t, label+"-canc"), UnconfirmedDepth: verifU32(t, label+"-depth")}
	switch rapid.IntRange(0, 2).Draw(t, label+"-mp") {
	case 1:
		s.MerkleProof, _ = VerifMerkleProof(t, label+"-proof")
	case 2:
		// arbitrary (not tree-consistent) proof fields: the codec must not care
		mp := &MerkleProof{Index: VerifBoundaryU64(t, label+"-pi"), BlockHeader: verifHeader(t, label+"-ph")}
		for i, n := 0, rapid.IntRange(0, 3).Draw(t, label+"-pn"); i < n; i++ {
			mp.Path = append(mp.Path, verifHash32(t, label+"-pp"))
		}
		for i, n := 0, rapid.IntRange(0, 3).Draw(t, label+"-dn"); i < n; i++ {
			mp.DuplicatedIndexes = append(mp.DuplicatedIndexes, VerifBoundaryU64(t, label+"-dd"))
		}
		s.MerkleProof = mp
	}
	return s
}

// VerifClientTx draws a Tx message / stored tx record: spent outputs sized by the input count.
func VerifClientTx(t *rapid.T, label string) *Tx {
	tx := &Tx{ID: VerifBoundaryU64(t, label+"-id"), Tx: VerifTx(t, label+"-tx"), State: verifTxState(t, label+"-st")}
	for range tx.Tx.TxIn {
		tx.Outputs = append(tx.Outputs, wire.NewTxOut(VerifBoundaryU64(t, label+"-ov"), verifBytes(t, label+"-os", 300)))
	}
	return tx
}

func verifDepMerkleProof(t *rapid.T, label string) *merkle_proof.MerkleProof {
	cmp, txid := VerifMerkleProof(t, label)
	mp := cmp.ConvertToMerkleProof(txid)
	switch rapid.IntRange(0, 2).Draw(t, label+"-target") {
	case 1:
		h := *mp.BlockHeader.BlockHash()
		mp.BlockHash = &h
		mp.BlockHeader = nil
	case 2:
		r := mp.BlockHeader.MerkleRoot
		mp.MerkleRoot = &r
		mp.BlockHeader = nil
	}
	return mp
}

func verifAncestors(t *rapid.T, label string) expanded_tx.AncestorTxs {
	var out expanded_tx.AncestorTxs
	for i, n := 0, rapid.IntRange(0, 2).Draw(t, label+"-n"); i < n; i++ {
		a := &expanded_tx.AncestorTx{Tx: VerifTx(t, label+"-tx")}
		if rapid.Bool().Draw(t, label+"-hasmp") {
			a.MerkleProofs = append(a.MerkleProofs, verifDepMerkleProof(t, label+"-mp"))
		}
		out = append(out, a)
	}
	return out
}

func verifExpandedTx(t *rapid.T, label string) *expanded_tx.ExpandedTx {
	etx := &expanded_tx.ExpandedTx{Tx: VerifTx(t, label+"-tx"), Ancestors: verifAncestors(t, label+"-anc")}
	if rapid.Bool().Draw(t, label+"-spent") {
		for range etx.Tx.TxIn {
			etx.SpentOutputs = append(etx.SpentOutputs, &expanded_tx.Output{Value: VerifBoundaryU64(t, label+"-sv"),
				LockingScript: verifBytes(t, label+"-ss", 100)})
		}
	}
	return etx
}

func verifIndexes(t *rapid.T, label string) []uint32 {
	var out []uint32
	for i, n := 0, rapid.SampledFrom([]int{0, 0, 1, 2, 5, 260}).Draw(t, label+"-n"); i < n; i++ {
		out = append(out, verifU32(t, label))
	}
	return out
}

func verifOutpoints(t *rapid.T, label string) []*wire.OutPoint {
	var out []*wire.OutPoint
	for i, n := 0, rapid.SampledFrom([]int{0, 1, 2, 3, 254}).Draw(t, label+"-n"); i < n; i++ {
		h := verifHash32(t, label+"-h")
		out = append(out, wire.NewOutPoint(&h, verifU32(t, label+"-i")))
	}
	return out
}

func verifPushDatas(t *rapid.T, label string) [][]byte {
	var out [][]byte
	for i, n := 0, rapid.SampledFrom([]int{0, 1, 2, 3, 253}).Draw(t, label+"-n"); i < n; i++ {
		out = append(out, verifBytes(t, label+"-pd", 300))
	}
	return out
}

func verifOptHash(t *rapid.T, label string) *bitcoin.Hash32 {
	if rapid.Bool().Draw(t, label+"-present") {
		h := verifHash32(t, label)
		return &h
	}
	return nil
}

// normaliseBSOR passes a bsor-typed value through one encode/decode so only representable values
// are compared.
func normaliseBSOR(v interface{}, out interface{}) bool {
	b, err := bsor.MarshalBinary(v)
	if err != nil {
		return false
	}
	if _, err := bsor.UnmarshalBinary(b, out); err != nil {
		return false
	}
	return true
}

// VerifGenerators maps every message type code to a generator of its payload.
var VerifGenerators = map[uint64]func(t *rapid.T) MessagePayload{
	MessageTypeRegister: func(t *rapid.T) MessagePayload {
		return &Register{Version: rapid.Uint8().Draw(t, "ver"), Key: verifPubKey(t, "key"), Hash: verifHash32(t, "hash"),
			StartBlockHeight: verifU32(t, "start"), ChainTip: verifHash32(t, "tip"),
			ConnectionType: ConnectionType(rapid.Uint8().Draw(t, "ct")), Signature: verifSignature(t, "sig")}
	},
	MessageTypeSubscribePushData:   func(t *rapid.T) MessagePayload { return &SubscribePushData{PushDatas: verifPushDatas(t, "pd")} },
	MessageTypeUnsubscribePushData: func(t *rapid.T) MessagePayload { return &UnsubscribePushData{PushDatas: verifPushDatas(t, "pd")} },
	MessageTypeSubscribeTx: func(t *rapid.T) MessagePayload {
		return &SubscribeTx{TxID: verifHash32(t, "txid"), Indexes: verifIndexes(t, "idx")}
	},
	MessageTypeUnsubscribeTx: func(t *rapid.T) MessagePayload {
		return &UnsubscribeTx{TxID: verifHash32(t, "txid"), Indexes: verifIndexes(t, "idx")}
	},
	MessageTypeSubscribeOutputs:     func(t *rapid.T) MessagePayload { return &SubscribeOutputs{Outputs: verifOutpoints(t, "op")} },
	MessageTypeUnsubscribeOutputs:   func(t *rapid.T) MessagePayload { return &UnsubscribeOutputs{Outputs: verifOutpoints(t, "op")} },
	MessageTypeSubscribeHeaders:     func(t *rapid.T) MessagePayload { return &SubscribeHeaders{} },
	MessageTypeUnsubscribeHeaders:   func(t *rapid.T) MessagePayload { return &UnsubscribeHeaders{} },
	MessageTypeSubscribeContracts:   func(t *rapid.T) MessagePayload { return &SubscribeContracts{} },
	MessageTypeUnsubscribeContracts: func(t *rapid.T) MessagePayload { return &UnsubscribeContracts{} },
	MessageTypeReady:                func(t *rapid.T) MessagePayload { return &Ready{NextMessageID: VerifBoundaryU64(t, "id")} },
	MessageTypeGetChainTip:          func(t *rapid.T) MessagePayload { return &GetChainTip{} },
	MessageTypeGetHeaders: func(t *rapid.T) MessagePayload {
		return &GetHeaders{RequestHeight: rapid.SampledFrom([]int32{-1, 0, 1, 1000, 2147483647, -2147483648}).Draw(t, "h"), MaxCount: verifU32(t, "max")}
	},
	MessageTypeSendTx: func(t *rapid.T) MessagePayload {
		return &SendTx{Tx: VerifTx(t, "tx"), Indexes: verifIndexes(t, "idx")}
	},
	MessageTypeSendExpandedTx: func(t *rapid.T) MessagePayload {
		etx := verifExpandedTx(t, "etx")
		norm := &expanded_tx.ExpandedTx{}
		if !normaliseBSOR(etx, norm) {
			norm = &expanded_tx.ExpandedTx{Tx: etx.Tx}
		}
		return &SendExpandedTx{Tx: norm, Indexes: verifIndexes(t, "idx")}
	},
	MessageTypeSaveTxs: func(t *rapid.T) MessagePayload {
		a := verifAncestors(t, "anc")
		norm := expanded_tx.AncestorTxs{}
		if !normaliseBSOR(a, &norm) {
			norm = expanded_tx.AncestorTxs{}
		}
		return &SaveTxs{Txs: norm}
	},
	MessageTypeGetTx:        func(t *rapid.T) MessagePayload { return &GetTx{TxID: verifHash32(t, "txid")} },
	MessageTypeGetHeader:    func(t *rapid.T) MessagePayload { return &GetHeader{BlockHash: verifHash32(t, "h")} },
	MessageTypeGetFeeQuotes: func(t *rapid.T) MessagePayload { return &GetFeeQuotes{} },
	MessageTypePostMerkleProofs: func(t *rapid.T) MessagePayload {
		m := &PostMerkleProofs{}
		for i, n := 0, rapid.IntRange(0, 3).Draw(t, "n"); i < n; i++ {
			mp := verifDepMerkleProof(t, "mp")
			// normalise through the dependency's own codec
			var buf bytes.Buffer
			if err := mp.Serialize(&buf); err != nil {
				continue
			}
			norm := &merkle_proof.MerkleProof{}
			if err := norm.Deserialize(&buf); err != nil {
				continue
			}
			m.MerkleProofs = append(m.MerkleProofs, norm)
		}
		return m
	},
	MessageTypeReprocessTx: func(t *rapid.T) MessagePayload {
		m := &ReprocessTx{TxID: verifHash32(t, "txid")}
		for i, n := 0, rapid.SampledFrom([]int{0, 1, 2, 253}).Draw(t, "n"); i < n; i++ {
			m.ClientIDs = append(m.ClientIDs, verifHash20(t, "cid"))
		}
		return m
	},
	MessageTypeMarkHeaderInvalid:    func(t *rapid.T) MessagePayload { return &MarkHeaderInvalid{BlockHash: verifHash32(t, "h")} },
	MessageTypeMarkHeaderNotInvalid: func(t *rapid.T) MessagePayload { return &MarkHeaderNotInvalid{BlockHash: verifHash32(t, "h")} },
	MessageTypeAcceptRegister: func(t *rapid.T) MessagePayload {
		return &AcceptRegister{Key: verifPubKey(t, "key"), PushDataCount: VerifBoundaryU64(t, "pdc"),
			UTXOCount: VerifBoundaryU64(t, "uc"), MessageCount: VerifBoundaryU64(t, "mc"), Signature: verifSignature(t, "sig")}
	},
	MessageTypeBaseTx: func(t *rapid.T) MessagePayload { return &BaseTx{Tx: VerifTx(t, "tx")} },
	MessageTypeTx:     func(t *rapid.T) MessagePayload { return VerifClientTx(t, "ctx") },
	MessageTypeTxUpdate: func(t *rapid.T) MessagePayload {
		return &TxUpdate{ID: VerifBoundaryU64(t, "id"), TxID: verifHash32(t, "txid"), State: verifTxState(t, "st")}
	},
	MessageTypeInSync: func(t *rapid.T) MessagePayload { return &InSync{} },
	MessageTypeChainTip: func(t *rapid.T) MessagePayload {
		return &ChainTip{Height: verifU32(t, "h"), Hash: verifHash32(t, "hash")}
	},
	MessageTypeHeaders: func(t *rapid.T) MessagePayload {
		m := &Headers{RequestHeight: rapid.SampledFrom([]int32{-1, 0, 7, 2147483647}).Draw(t, "rh"), StartHeight: verifU32(t, "sh")}
		// list lengths around the decoder's 256-element reservation limit as well
		n := rapid.SampledFrom([]int{0, 1, 1, 2, 2, 3, 3, 253, 255, 256, 257, 300}).Draw(t, "n")
		var base wire.BlockHeader
		for i := 0; i < n; i++ {
			if i < 4 {
				base = verifHeader(t, "hdr")
			}
			h := base
			h.Nonce += uint32(i) // long lists: distinct headers without thousands of draws
			m.Headers = append(m.Headers, &h)
		}
		return m
	},
	MessageTypeHeader: func(t *rapid.T) MessagePayload {
		return &Header{Header: verifHeader(t, "hdr"), BlockHeight: verifU32(t, "bh"), IsMostPOW: rapid.Bool().Draw(t, "pow")}
	},
	MessageTypeFeeQuotes: func(t *rapid.T) MessagePayload {
		m := &FeeQuotes{}
		for i, n := 0, rapid.SampledFrom([]int{0, 1, 2, 253}).Draw(t, "n"); i < n; i++ {
			m.FeeQuotes = append(m.FeeQuotes, &merchant_api.FeeQuote{
				FeeType:   merchant_api.FeeType(rapid.Uint8().Draw(t, "ft")),
				MiningFee: merchant_api.Fee{Satoshis: VerifBoundaryU64(t, "ms"), Bytes: VerifBoundaryU64(t, "mb")},
				RelayFee:  merchant_api.Fee{Satoshis: VerifBoundaryU64(t, "rs"), Bytes: VerifBoundaryU64(t, "rb")}})
		}
		return m
	},
	MessageTypeAccept: func(t *rapid.T) MessagePayload {
		return &Accept{MessageType: VerifBoundaryU64(t, "mt"), Hash: verifOptHash(t, "hash")}
	},
	MessageTypeReject: func(t *rapid.T) MessagePayload {
		return &Reject{MessageType: VerifBoundaryU64(t, "mt"), Hash: verifOptHash(t, "hash"),
			Code: RejectCode(verifU32(t, "code")), Message: string(verifBytes(t, "msg", 300))}
	},
	MessageTypePing: func(t *rapid.T) MessagePayload { return &Ping{TimeStamp: VerifBoundaryU64(t, "ts")} },
	MessageTypePong: func(t *rapid.T) MessagePayload {
		return &Pong{RequestTimeStamp: VerifBoundaryU64(t, "rts"), TimeStamp: VerifBoundaryU64(t, "ts")}
	},
}
