//go:build verif

package client

// C17 — Remote client delivers tx notifications in message-id order exactly once.

import (
	"fmt"
	"sync"
	"testing"
	"time"

	"github.com/tokenized/pkg/wire"
	"github.com/tokenized/spynode/internal/verifkit"

	"pgregory.net/rapid"
)

// C17Item is one message the server streams.
type C17Item struct {
	Kind  string `json:"kind"`  // tx update headers insync
	Delta int    `json:"delta"` // id = expected-by-an-honest-server + Delta (0 = the next id; -1 duplicate of the last; +1 skip one ...)
}

// C17Segment is what the server does on one connection before dropping it.
type C17Segment struct {
	Items []C17Item `json:"items"`
}

// C17Plan is a stream over several connections. Resume=true: the server is honest and resumes
// from the ready value of each connection over a fixed backlog (end-to-end no gap / no repeat).
type C17Plan struct {
	Resume   bool         `json:"resume"`
	Backlog  int          `json:"backlog,omitempty"` // resume mode: notifications 1..Backlog
	Cuts     []int        `json:"cuts,omitempty"`    // resume mode: drop the connection after this many sent messages
	Segments []C17Segment `json:"segments,omitempty"`
	// ReadyLag[n]: on its n-th accept the application declares ready with NextMessageID()-lag (at
	// least 1): it asks for a repeat of notifications it was handed but did not keep
	ReadyLag []int `json:"ready_lag,omitempty"`
	// PreAccept[n]: on the n-th connection the server sends that many tx notifications, numbered
	// from the id the client expects, before its accept (they must be ignored and not counted)
	PreAccept []int `json:"pre_accept,omitempty"`
	// a slow application: each notification takes HandlerDelayMs to handle, and on reconnect it declares
	// ready with the id after the last one it has handled (what cmd/client does)
	HandlerDelayMs int  `json:"handler_delay_ms,omitempty"`
	ReadyFromSeen  bool `json:"ready_from_seen,omitempty"`
	BusyCut        bool `json:"busy_cut,omitempty"` // resume mode: drop while the application is still busy
}

type flagSetter struct {
	m  map[string]bool
	mu *sync.Mutex
}

func (f flagSetter) set(k string) {
	f.mu.Lock()
	f.m[k] = true
	f.mu.Unlock()
}

// c17TxMsg builds a well-formed tx notification (one spent output per input).
func c17TxMsg(id uint64) *Tx {
	tx := c16Tx(int(id % 200))
	m := &Tx{ID: id, Tx: tx}
	for range tx.TxIn {
		m.Outputs = append(m.Outputs, wire.NewTxOut(1, []byte{0x51}))
	}
	return m
}

type c17Sent struct {
	kind string
	id   uint64
	conn int
}

func c17Run(plan *C17Plan) (*c16Violation, map[string]bool) {
	flagsRaw := map[string]bool{}
	var mu sync.Mutex
	flags := flagSetter{m: flagsRaw, mu: &mu}
	var sent []c17Sent
	readies := map[int]uint64{} // connection index -> ready value
	segDone := make(chan int, 64)
	seg := 0
	cursor := uint64(1) // resume mode: next backlog id an honest server would send (set from ready)
	// quiesce waits until the client has taken in what was sent: the number of handler callbacks and
	// the next-message-id stay unchanged for 100 ms (at most 5 s). A fixed sleep is not enough on a
	// loaded machine: messages still queued inside the client when the connection drops are rightly
	// discarded by it, and the model would count them as delivered.
	var tcp *testClient
	// with a slow application the callback count moves only once per handler delay: the stability
	// window is at least four such delays
	stable := 100 * time.Millisecond
	if d := 4 * time.Duration(plan.HandlerDelayMs) * time.Millisecond; d > stable {
		stable = d
	}
	quiesce := func() {
		deadline := time.Now().Add(5*time.Second + 20*stable)
		lastN, lastID, since := -1, uint64(0), time.Now()
		for time.Now().Before(deadline) {
			mu.Lock()
			t := tcp
			mu.Unlock()
			if t == nil {
				time.Sleep(5 * time.Millisecond)
				continue
			}
			n := len(t.h1.snapshot()) + len(t.h2.snapshot())
			id := t.c.NextMessageID()
			if n != lastN || id != lastID {
				lastN, lastID, since = n, id, time.Now()
			} else if time.Since(since) > stable {
				return
			}
			time.Sleep(5 * time.Millisecond)
		}
	}
	guess := uint64(1) // the id the client expects next, as far as the server can tell
	srv, err := newFakeServer(func(sc *srvConn) {
		mu.Lock()
		pre := 0
		if sc.index < len(plan.PreAccept) {
			pre = plan.PreAccept[sc.index]
		}
		g := guess
		mu.Unlock()
		for k := 0; k < pre; k++ {
			_ = sc.send(c17TxMsg(g + uint64(k)))
			flags.set("data-before-accept")
		}
		if pre > 0 {
			time.Sleep(20 * time.Millisecond)
		}
		if err := sc.sendAccept(""); err != nil {
			segDone <- -1
			return
		}
		rd := sc.waitReady(15 * time.Second)
		if rd == nil {
			segDone <- -1
			return
		}
		mu.Lock()
		readies[sc.index] = rd.NextMessageID
		my := seg
		seg++
		mu.Unlock()
		mu.Lock()
		guess = rd.NextMessageID
		mu.Unlock()
		next := rd.NextMessageID // what an honest server would send next on this connection
		push := func(kind string, id uint64) {
			switch kind {
			case "tx":
				_ = sc.send(c17TxMsg(id))
			case "update":
				_ = sc.send(&TxUpdate{ID: id, TxID: *c16Tx(int(id % 200)).TxHash()})
			case "headers":
				_ = sc.send(&Headers{StartHeight: uint32(id)})
			case "insync":
				_ = sc.send(&InSync{})
			}
			mu.Lock()
			sent = append(sent, c17Sent{kind, id, sc.index})
			if (kind == "tx" || kind == "update") && id == guess {
				guess = id + 1
			}
			mu.Unlock()
		}
		if plan.Resume {
			mu.Lock()
			cursor = rd.NextMessageID
			limit := plan.Backlog + 1
			cut := limit
			if my < len(plan.Cuts) {
				cut = plan.Cuts[my]
			}
			mu.Unlock()
			n := 0
			for id := cursor; id < uint64(limit) && n < cut; id++ {
				kind := "tx"
				if id%3 == 0 {
					kind = "update"
				}
				push(kind, id)
				n++
			}
			if plan.BusyCut && plan.HandlerDelayMs > 0 && my < len(plan.Cuts) {
				// drop while the slow application still has notifications queued: wait only until the
				// client has counted everything that was sent, not until the handlers have seen it
				deadline := time.Now().Add(5 * time.Second)
				var t *testClient
				for t == nil && time.Now().Before(deadline) {
					mu.Lock()
					t = tcp
					mu.Unlock()
					if t == nil {
						time.Sleep(time.Millisecond) // the server side can be ahead of the client's constructor returning
					}
				}
				for t != nil && t.c.NextMessageID() != cursor+uint64(n) && time.Now().Before(deadline) {
					time.Sleep(time.Millisecond)
				}
				if t != nil && n > 0 {
					t.h1.mu.Lock()
					behind := t.h1.lastSeen+1 < cursor+uint64(n)
					t.h1.mu.Unlock()
					if behind {
						flags.set("busy-reconnect")
					}
				}
			} else {
				quiesce()
			}
			if my < len(plan.Cuts) {
				_ = sc.c.Close()
				flags.set("reconnect")
			}
			segDone <- my
			return
		}
		if my >= len(plan.Segments) {
			segDone <- my
			return
		}
		last := next - 1
		for _, it := range plan.Segments[my].Items {
			switch it.Kind {
			case "tx", "update":
				id := uint64(int64(next) + int64(it.Delta))
				if int64(next)+int64(it.Delta) < 1 {
					id = 1
				}
				push(it.Kind, id)
				if id == next {
					next++
				}
				if it.Delta != 0 {
					flags.set("irregular-id")
				}
				last = id
			default:
				push(it.Kind, 0)
			}
		}
		_ = last
		quiesce() // let the client take everything in before the drop
		if my < len(plan.Segments)-1 {
			_ = sc.c.Close()
			flags.set("reconnect")
		}
		segDone <- my
	})
	if err != nil {
		return &c16Violation{"C17/harness/listen", err.Error()}, flagsRaw
	}
	defer srv.close()
	tc, err := newTestClient(srv.addr(), ConnectionTypeFull, time.Second, true)
	if err != nil {
		return &c16Violation{"C17/harness/client", err.Error()}, flagsRaw
	}
	defer tc.stop()
	tc.h1.mu.Lock()
	tc.h1.readyLag = plan.ReadyLag
	tc.h1.delay = time.Duration(plan.HandlerDelayMs) * time.Millisecond
	tc.h1.readyFromSeen = plan.ReadyFromSeen
	tc.h1.mu.Unlock()
	mu.Lock()
	tcp = tc
	mu.Unlock()
	want := len(plan.Segments)
	if plan.Resume {
		want = len(plan.Cuts) + 1
	}
	for i := 0; i < want; i++ {
		select {
		case r := <-segDone:
			if r < 0 {
				return &c16Violation{"C17/harness/handshake", "a connection did not complete its handshake"}, flagsRaw
			}
		case <-time.After(40 * time.Second):
			return &c16Violation{"C17/harness/segments", fmt.Sprintf("only %d of %d planned connections happened", i, want)}, flagsRaw
		}
	}
	quiesce()
	// reference: replay what was sent against the counter model
	mu.Lock()
	sentCopy := append([]c17Sent{}, sent...)
	readyCopy := map[int]uint64{}
	maxConn := -1
	for k, v := range readies {
		readyCopy[k] = v
		if k > maxConn {
			maxConn = k
		}
	}
	mu.Unlock()
	type del struct {
		kind string
		id   uint64
	}
	// reference counter model, connection by connection
	var ref []del
	lastDelivered := uint64(0)
	haveFirst := false
	nAcc := 0
	modelNext := uint64(1)
	for conn := 0; conn <= maxConn; conn++ {
		expected, ok := readyCopy[conn]
		if !ok {
			continue
		}
		if !haveFirst {
			lastDelivered = expected - 1
			haveFirst = true
		}
		wantReady := lastDelivered + 1
		if nAcc < len(plan.ReadyLag) && uint64(plan.ReadyLag[nAcc]) < wantReady {
			if plan.ReadyLag[nAcc] > 0 {
				flags.set("repeat-requested")
			}
			wantReady -= uint64(plan.ReadyLag[nAcc])
		}
		nAcc++
		if expected != wantReady {
			return &c16Violation{"C17/ready-value", fmt.Sprintf("connection %d declared ready with %d, last delivered id was %d (requested lag %v)", conn, expected, lastDelivered, plan.ReadyLag)}, flagsRaw
		}
		for _, s := range sentCopy {
			if s.conn != conn || (s.kind != "tx" && s.kind != "update") {
				continue
			}
			if s.id == expected {
				ref = append(ref, del{s.kind, s.id})
				lastDelivered = s.id
				expected++
			}
		}
		// after a repeat request the next expected id is the one the application asked for until
		// the server sends it again
		modelNext = expected
		lastDelivered = expected - 1
	}
	get := func(h *cliHandler) []del {
		var out []del
		for _, e := range h.snapshot() {
			if e.kind == "tx" || e.kind == "update" {
				out = append(out, del{e.kind, e.id})
			}
		}
		return out
	}
	d1, d2 := get(tc.h1), get(tc.h2)
	if fmt.Sprint(d1) != fmt.Sprint(d2) {
		return &c16Violation{"C17/handlers-differ", fmt.Sprintf("handler 1 got %v, handler 2 got %v", d1, d2)}, flagsRaw
	}
	if fmt.Sprint(d1) != fmt.Sprint(ref) {
		return &c16Violation{"C17/delivery-differs-from-counter-model", fmt.Sprintf("server sent %v with ready values %v; delivered %v; the message-id counter model delivers %v", sentCopy, readyCopy, d1, ref)}, flagsRaw
	}
	if got := tc.c.NextMessageID(); haveFirst && got != modelNext {
		return &c16Violation{"C17/next-message-id", fmt.Sprintf("NextMessageID()=%d, the counter model expects %d next (last delivered id plus one, or the id of the last repeat request)", got, modelNext)}, flagsRaw
	}
	lagged := false
	for _, l := range plan.ReadyLag {
		if l > 0 {
			lagged = true
		}
	}
	if plan.Resume && !lagged {
		// end-to-end: exactly 1..Backlog, in order, once
		if len(d1) != plan.Backlog {
			return &c16Violation{"C17/resume/gap-or-repeat", fmt.Sprintf("a server resuming from the ready value over a backlog of %d notifications led to %d deliveries: %v", plan.Backlog, len(d1), d1)}, flagsRaw
		}
		for i, d := range d1 {
			if d.id != uint64(i+1) {
				return &c16Violation{"C17/resume/gap-or-repeat", fmt.Sprintf("delivery %d has id %d", i, d.id)}, flagsRaw
			}
		}
	}
	return nil, flagsRaw
}

func genC17(t *rapid.T) *C17Plan {
	lags := func(n int) []int {
		if rapid.IntRange(0, 2).Draw(t, "lagged") != 0 {
			return nil
		}
		out := []int{0} // nothing to repeat on the first connection
		for i := 1; i < n; i++ {
			out = append(out, rapid.IntRange(0, 3).Draw(t, "lag"))
		}
		return out
	}
	pres := func(n int) []int {
		if rapid.IntRange(0, 3).Draw(t, "pre") != 0 {
			return nil
		}
		var out []int
		for i := 0; i < n; i++ {
			out = append(out, rapid.IntRange(0, 2).Draw(t, "npre"))
		}
		return out
	}
	if rapid.IntRange(0, 2).Draw(t, "mode") == 0 {
		p := &C17Plan{Resume: true, Backlog: rapid.IntRange(1, 14).Draw(t, "backlog")}
		for i, n := 0, rapid.IntRange(0, 3).Draw(t, "ncuts"); i < n; i++ {
			p.Cuts = append(p.Cuts, rapid.IntRange(0, 6).Draw(t, "cut"))
		}
		p.ReadyLag = lags(len(p.Cuts) + 1)
		p.PreAccept = pres(len(p.Cuts) + 1)
		if p.ReadyLag == nil && rapid.IntRange(0, 1).Draw(t, "slowapp") == 0 {
			p.HandlerDelayMs = rapid.SampledFrom([]int{3, 10, 25, 60}).Draw(t, "hdelay")
			p.ReadyFromSeen = true
			p.BusyCut = rapid.IntRange(0, 3).Draw(t, "busycut") != 0
		}
		return p
	}
	p := &C17Plan{}
	defer func() {
		p.ReadyLag = lags(len(p.Segments))
		p.PreAccept = pres(len(p.Segments))
		if p.ReadyLag == nil && rapid.IntRange(0, 3).Draw(t, "slowapp") == 0 {
			p.HandlerDelayMs = rapid.SampledFrom([]int{3, 10, 25}).Draw(t, "hdelay")
			p.ReadyFromSeen = true
		}
	}()
	for s, ns := 0, rapid.IntRange(1, 3).Draw(t, "nseg"); s < ns; s++ {
		var sg C17Segment
		for i, n := 0, rapid.IntRange(0, 9).Draw(t, "nitems"); i < n; i++ {
			kind := rapid.SampledFrom([]string{"tx", "tx", "tx", "update", "update", "headers", "insync"}).Draw(t, "kind")
			it := C17Item{Kind: kind}
			if kind == "tx" || kind == "update" {
				it.Delta = rapid.SampledFrom([]int{0, 0, 0, 0, 0, -1, -1, 1, 2, -3}).Draw(t, "delta")
			}
			sg.Items = append(sg.Items, it)
		}
		p.Segments = append(p.Segments, sg)
	}
	return p
}

const c17Rule = "a real RemoteClient.Run (application declares ready on every accept with NextMessageID(), or in a third of the plans with an id up to 3 lower to ask for a repeat, or - a slow application, 3-25 ms per notification - with the id after the last notification it has handled, and in most of those resume plans the server drops the connection while that application still has notifications queued; two handlers) against a scripted server (which in a quarter of the plans sends correctly numbered notifications before its accept): hostile mode streams tx/update/headers/in-sync messages whose ids are consecutive, duplicated, skipped or out of order over 1..3 connections that the server drops; resume mode is an honest server that resumes a backlog from each connection's ready value with drops at generated positions; oracle: reference id counter, identical handler sequences, NextMessageID == last delivered + 1, ready value on reconnect, and in resume mode exactly 1..N once; non-trivial = an irregular id or a reconnect; distinct by plan hash"

func TestC17Order(t *testing.T) {
	rep := verifkit.NewReport("C17", "TestC17Order", c17Rule)
	defer rep.Finish(t)
	nt := func(f map[string]bool) bool { return f["irregular-id"] || f["reconnect"] }
	replay := func(path string) {
		var plan C17Plan
		if _, _, err := verifkit.LoadReplay(path, &plan); err != nil {
			t.Fatalf("replay %s: %v", path, err)
		}
		v, f := c17Run(&plan)
		rep.Case(verifkit.Hash(plan), nt(f), "replay")
		if v != nil {
			rep.AddViolation(v.key, v.what, plan)
			t.Errorf("replay %s: %s: %s", path, v.key, v.what)
		}
	}
	if f := verifkit.ReplayFile("TestC17Order"); f != "" {
		replay(f)
		return
	}
	for _, f := range verifkit.RegressionFiles("TestC17Order") {
		replay(f)
	}
	rapid.Check(t, func(rt *rapid.T) {
		plan := genC17(rt)
		v, f := c17Run(plan)
		if v != nil {
			// real sockets and goroutines: a verdict counts when the same plan fails again
			first := v.key
			v, f = c17Run(plan)
			if v == nil {
				rep.Label("verdict-not-reproduced:"+first, 1)
			}
		}
		rep.Case(verifkit.Hash(plan), nt(f), flagList16(f)...)
		if nt(f) && rep.WantSample() {
			rep.Sample(plan)
		}
		if v != nil {
			if verifkit.Known(v.key) {
				rep.Exclude(v.key)
				return
			}
			rep.Fail(v.key, v.what, plan)
			rt.Fatalf("%s: %s", v.key, v.what)
		}
	})
}
