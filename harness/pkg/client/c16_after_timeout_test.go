//go:build verif

package client

// C16, "a call that gets no response fails with a time-out ... without disturbing other pending
// calls": one call is never answered; while it is pending two headers-by-height calls are issued one
// after the other (so that both sides agree which is the older one) and, in most plans, a few calls
// of other kinds; once the silent call has returned its time-out the server answers the others. A
// rejection of a headers request carries no key; the client gives it to the oldest pending headers
// request, which is the one the server is answering when it handles its requests in order.

import (
	"fmt"
	"sync"
	"testing"
	"time"

	"github.com/tokenized/spynode/internal/verifkit"

	"github.com/pkg/errors"
	"pgregory.net/rapid"
)

type C16After struct {
	TimeoutMs  int    `json:"timeout_ms"`
	SilentKind string `json:"silent_kind"` // the call that never gets a response
	KeyA       int    `json:"key_a"`       // older headers call
	KeyB       int    `json:"key_b"`       // newer headers call
	// Variant: 1 = reject (-> older), then headers for the newer; 2 = headers for the older, then a
	// reject (-> the newer, now the oldest pending); 3 = headers for the newer, then a reject (-> older)
	Variant int    `json:"variant"`
	Code    uint32 `json:"code"`
	Text    string `json:"text"`
	Others  int    `json:"others"` // further calls (gettx with distinct keys) pending at the same time, answered last
	// Extra silent calls issued before the one that times out first (they time out later or together)
	SilentBefore int `json:"silent_before"`
}

func c16AfterRun(p *C16After) (*c16Violation, map[string]bool) {
	flags := map[string]bool{fmt.Sprintf("variant-%d", p.Variant): true}
	timeout := time.Duration(p.TimeoutMs) * time.Millisecond
	srv, err := newFakeServer(func(sc *srvConn) {
		_ = sc.sendAccept("")
		<-sc.done
	})
	if err != nil {
		return &c16Violation{"C16/harness/listen", err.Error()}, flags
	}
	defer srv.close()
	tc, err := newTestClient(srv.addr(), ConnectionTypeFull, timeout, true)
	if err != nil {
		return &c16Violation{"C16/harness/client", err.Error()}, flags
	}
	defer tc.stop()
	deadline := time.Now().Add(30 * time.Second)
	var sc *srvConn
	for time.Now().Before(deadline) {
		if cs := srv.connections(); len(cs) > 0 && cs[0].waitReady(10*time.Millisecond) != nil {
			sc = cs[0]
			break
		}
		time.Sleep(5 * time.Millisecond)
	}
	if sc == nil {
		return &c16Violation{"C16/harness/handshake", "handshake did not complete"}, flags
	}
	ctx := srvQuietCtx()
	// the server side sees a request of the given kind/height
	sawHeaders := func(height int) func([]srvRecv) bool {
		return func(rs []srvRecv) bool {
			for _, r := range rs {
				if k, _, ht, ok := c16Identify(r.msg); ok && k == "getheaders" && ht == height {
					return true
				}
			}
			return false
		}
	}
	type outcome struct {
		val interface{}
		err error
		at  time.Time // when the call was issued
		end time.Time
	}
	call := func(kind string, key int) outcome {
		o := outcome{at: time.Now()}
		switch kind {
		case "gettx":
			o.val, o.err = tc.c.GetTx(ctx, *c16Tx(key).TxHash())
		case "sendtx":
			o.err = tc.c.SendTx(ctx, c16Tx(key))
		case "markinvalid":
			h := c16Header(key)
			o.err = tc.c.MarkHeaderInvalid(ctx, *h.BlockHash())
		case "getheaders":
			o.val, o.err = tc.c.GetHeaders(ctx, 1000+key, 3)
		}
		o.end = time.Now()
		return o
	}
	var wg sync.WaitGroup
	// earlier silent calls: they occupy the first places of the pending list
	for k := 0; k < p.SilentBefore; k++ {
		wg.Add(1)
		go func(k int) { defer wg.Done(); call("gettx", 300+k) }(k)
	}
	if p.SilentBefore > 0 {
		time.Sleep(timeout / 10)
	}
	silentDone := make(chan outcome, 1)
	wg.Add(1)
	go func() { defer wg.Done(); silentDone <- call(p.SilentKind, 77) }()
	time.Sleep(timeout * 6 / 10)
	resA, resB := make(chan outcome, 1), make(chan outcome, 1)
	wg.Add(1)
	go func() { defer wg.Done(); resA <- call("getheaders", p.KeyA) }()
	if !sc.waitFor(sawHeaders(1000+p.KeyA), timeout/10) {
		flags["slipped-under-load"] = true
		wg.Wait()
		return nil, flags
	}
	wg.Add(1)
	go func() { defer wg.Done(); resB <- call("getheaders", p.KeyB) }()
	if !sc.waitFor(sawHeaders(1000+p.KeyB), timeout/10) {
		flags["slipped-under-load"] = true
		wg.Wait()
		return nil, flags
	}
	otherRes := make([]chan outcome, p.Others)
	for k := 0; k < p.Others; k++ {
		otherRes[k] = make(chan outcome, 1)
		wg.Add(1)
		go func(k int) { defer wg.Done(); otherRes[k] <- call("gettx", 100+k) }(k)
	}
	// the silent call runs into its time-out
	var silent outcome
	select {
	case silent = <-silentDone:
	case <-time.After(timeout + 5*time.Second):
		return &c16Violation{"C16/call-hung", "a call without a response did not return within the request time-out plus 5 s"}, flags
	}
	if errors.Cause(silent.err) != ErrTimeout {
		return &c16Violation{"C16/" + p.SilentKind + "/timeout-outcome", fmt.Sprintf("a %s call that got no response returned err=%v instead of a time-out", p.SilentKind, silent.err)}, flags
	}
	flags["timeout-case"] = true
	time.Sleep(10 * time.Millisecond)
	headers := func(key int) {
		hs := &Headers{RequestHeight: int32(1000 + key), StartHeight: uint32(1000 + key)}
		for k := 0; k < 3; k++ {
			h := c16Header(key*10 + k)
			hs.Headers = append(hs.Headers, &h)
		}
		_ = sc.send(hs)
	}
	reject := func() {
		_ = sc.send(&Reject{MessageType: MessageTypeGetHeaders, Code: RejectCode(p.Code), Message: p.Text})
	}
	rejected, answered := p.KeyA, p.KeyB
	switch p.Variant {
	case 1:
		reject()
		headers(p.KeyB)
	case 2:
		headers(p.KeyA)
		time.Sleep(5 * time.Millisecond) // the answer is taken off the pending list before the reject is routed
		reject()
		rejected, answered = p.KeyB, p.KeyA
	default:
		headers(p.KeyB)
		time.Sleep(5 * time.Millisecond)
		reject()
	}
	wrote := time.Now()
	for k := 0; k < p.Others; k++ {
		_ = sc.send(&BaseTx{Tx: c16Tx(100 + k)})
	}
	var oa, ob outcome
	for got := 0; got < 2; got++ {
		select {
		case oa = <-resA:
		case ob = <-resB:
		case <-time.After(timeout + 5*time.Second):
			return &c16Violation{"C16/call-hung", "a headers call did not return within the request time-out plus 5 s"}, flags
		}
	}
	others := make([]outcome, p.Others)
	for k := range otherRes {
		select {
		case others[k] = <-otherRes[k]:
		case <-time.After(timeout + 5*time.Second):
			return &c16Violation{"C16/call-hung", "a call did not return within the request time-out plus 5 s"}, flags
		}
	}
	wg.Wait()
	// only a verdict when the responses were written well inside the headers calls' own time-outs
	if wrote.After(oa.at.Add(timeout*7/10)) || wrote.After(ob.at.Add(timeout*7/10)) {
		flags["slipped-under-load"] = true
		return nil, flags
	}
	flags["judged"] = true
	byKey := map[int]outcome{p.KeyA: oa, p.KeyB: ob}
	desc := fmt.Sprintf("a %s call timed out while headers calls for heights %d (older) and %d (newer) and %d other calls were pending; afterwards the server (variant %d) rejected one headers request with (%d,%q) and answered the other", p.SilentKind, 1000+p.KeyA, 1000+p.KeyB, p.Others, p.Variant, p.Code, p.Text)
	ro := byKey[rejected]
	re, ok := errors.Cause(ro.err).(RejectError)
	if !ok {
		return &c16Violation{"C16/getheaders/reject-outcome", fmt.Sprintf("%s: the headers call for height %d, the oldest pending one when the reject was sent, returned err=%v (value %v)", desc, 1000+rejected, ro.err, ro.val != nil)}, flags
	}
	if uint32(re.Code) != p.Code || re.Description != p.Text {
		return &c16Violation{"C16/getheaders/reject-content", fmt.Sprintf("%s: the reject error carries (%d,%q)", desc, re.Code, re.Description)}, flags
	}
	ao := byKey[answered]
	if ao.err != nil {
		return &c16Violation{"C16/getheaders/answer-outcome", fmt.Sprintf("%s: the headers call for height %d was answered but returned err=%v", desc, 1000+answered, ao.err)}, flags
	}
	if hs, _ := ao.val.(*Headers); hs == nil || int(hs.RequestHeight) != 1000+answered || len(hs.Headers) != 3 || *hs.Headers[0].BlockHash() != *c16HeaderHash(answered * 10) {
		return &c16Violation{"C16/getheaders/wrong-response", desc + ": the answered headers call returned headers of another request"}, flags
	}
	for k, o := range others {
		if o.err != nil {
			return &c16Violation{"C16/gettx/answer-outcome", fmt.Sprintf("%s: pending gettx call %d was answered but returned err=%v", desc, k, o.err)}, flags
		}
	}
	return nil, flags
}

func genC16After(t *rapid.T) *C16After {
	a := rapid.IntRange(1, 30).Draw(t, "a")
	b := rapid.IntRange(1, 29).Draw(t, "b")
	if b >= a {
		b++
	}
	return &C16After{TimeoutMs: rapid.SampledFrom([]int{400, 600}).Draw(t, "timeout"),
		SilentKind: rapid.SampledFrom([]string{"gettx", "sendtx", "markinvalid"}).Draw(t, "silent"),
		KeyA:       a, KeyB: b, Variant: rapid.IntRange(1, 3).Draw(t, "variant"),
		Code:         rapid.Uint32Range(0, 4).Draw(t, "code"),
		Text:         rapid.SampledFrom([]string{"", "not found", "x"}).Draw(t, "text"),
		Others:       rapid.IntRange(0, 3).Draw(t, "others"),
		SilentBefore: rapid.IntRange(0, 2).Draw(t, "before")}
}

const c16AfterRule = "a real RemoteClient.Run against a scripted loopback server: 0-2 calls that never get a response, then one more silent call (gettx / sendtx / markinvalid), then - 0.6 time-outs later, one after the other - two headers-by-height calls and 0-3 gettx calls; when the silent call has returned its time-out the server rejects one headers request (a headers reject carries no key: it belongs to the oldest pending headers request) and answers the other in one of three orders, then answers the rest; request time-out 400/600 ms; oracle: the silent call times out, the oldest pending headers call gets the reject with the server's code and text, the other one its own headers, every other call its own answer; no verdict when the responses were written later than 0.7 time-outs after a headers call was issued; non-trivial = the case was judged; distinct by plan hash"

func TestC16AfterTimeout(t *testing.T) {
	rep := verifkit.NewReport("C16", "TestC16AfterTimeout", c16AfterRule)
	defer rep.Finish(t)
	nt := func(f map[string]bool) bool { return f["judged"] }
	runTwice := func(p *C16After) (*c16Violation, map[string]bool) {
		v, f := c16AfterRun(p)
		if v != nil {
			// real sockets and timers: a verdict counts when the same plan fails again
			first := v.key
			v, f = c16AfterRun(p)
			if v == nil {
				rep.Label("verdict-not-reproduced:"+first, 1)
			}
		}
		return v, f
	}
	replay := func(path string) {
		var p C16After
		if _, _, err := verifkit.LoadReplay(path, &p); err != nil {
			t.Fatalf("replay %s: %v", path, err)
		}
		v, f := runTwice(&p)
		rep.Case(verifkit.Hash(p), nt(f), "replay")
		if v != nil {
			rep.AddViolation(v.key, v.what, p)
			t.Errorf("replay %s: %s: %s", path, v.key, v.what)
		}
	}
	if f := verifkit.ReplayFile("TestC16AfterTimeout"); f != "" {
		replay(f)
		return
	}
	for _, f := range verifkit.RegressionFiles("TestC16AfterTimeout") {
		replay(f)
	}
	rapid.Check(t, func(rt *rapid.T) {
		p := genC16After(rt)
		v, f := runTwice(p)
		rep.Case(verifkit.Hash(p), nt(f), flagList16(f)...)
		if nt(f) && rep.WantSample() {
			rep.Sample(p)
		}
		if v != nil {
			if verifkit.Known(v.key) {
				rep.Exclude(v.key)
				return
			}
			rep.Fail(v.key, v.what, p)
			rt.Fatalf("%s: %s", v.key, v.what)
		}
	})
}
