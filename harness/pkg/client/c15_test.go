//go:build verif

package client

// C15 — Client wire messages round-trip exactly and preserve stream framing.

import (
	"bytes"
	"encoding/base64"
	"encoding/gob"
	"encoding/hex"
	"fmt"
	"io"
	"math/big"
	"reflect"
	"sort"
	"testing"

	"github.com/tokenized/spynode/internal/verifkit"

	"pgregory.net/rapid"
)

const c15Rule = "one generated value per case for a message type taken from the type table itself (boundary integers at every varint width, empty/long lists, nil vs present optional fields, arbitrary scripts/transactions; bsor/merkle-proof payloads normalised through one encode/decode); non-trivial = encoding longer than 12 bytes (has a non-empty list, a present optional field or a multi-byte varint); distinct by encoding hash"

type c15Violation struct{ key, what string }

func c15Encode(m MessagePayload) (b []byte, err error) {
	defer func() {
		if r := recover(); r != nil {
			err = fmt.Errorf("panic in Serialize: %v", r)
		}
	}()
	var buf bytes.Buffer
	err = (Message{Payload: m}).Serialize(&buf)
	return buf.Bytes(), err
}

// c15Decode decodes one message from b; returns it, the bytes left unread, and error / panic text.
func c15Decode(b []byte) (m *Message, left int, err error, panicked string) {
	r := bytes.NewReader(b)
	defer func() {
		if rec := recover(); rec != nil {
			panicked = fmt.Sprint(rec)
			left = r.Len()
		}
	}()
	m = &Message{}
	err = m.Deserialize(r)
	return m, r.Len(), err, ""
}

var bigIntType = reflect.TypeOf(big.Int{})

// eqv is deep equality modulo nil/empty slices, comparing big.Int by value and skipping unexported
// fields of foreign structs. Returns "" when equivalent, else the path of the first difference.
func eqv(a, b reflect.Value, path string) string {
	if a.IsValid() != b.IsValid() {
		return path + ": validity"
	}
	if !a.IsValid() {
		return ""
	}
	if a.Type() != b.Type() {
		return path + ": type " + a.Type().String() + " vs " + b.Type().String()
	}
	switch a.Kind() {
	case reflect.Ptr, reflect.Interface:
		if a.IsNil() || b.IsNil() {
			if a.IsNil() != b.IsNil() {
				return path + ": nil vs non-nil"
			}
			return ""
		}
		return eqv(a.Elem(), b.Elem(), path)
	case reflect.Slice:
		if a.Len() == 0 && b.Len() == 0 {
			return ""
		}
		fallthrough
	case reflect.Array:
		if a.Len() != b.Len() {
			return fmt.Sprintf("%s: len %d vs %d", path, a.Len(), b.Len())
		}
		for i := 0; i < a.Len(); i++ {
			if d := eqv(a.Index(i), b.Index(i), fmt.Sprintf("%s[%d]", path, i)); d != "" {
				return d
			}
		}
		return ""
	case reflect.Struct:
		if a.Type() == bigIntType {
			x := a.Addr().Interface().(*big.Int)
			y := b.Addr().Interface().(*big.Int)
			if x.Cmp(y) != 0 {
				return path + ": big.Int differs"
			}
			return ""
		}
		for i := 0; i < a.NumField(); i++ {
			if a.Type().Field(i).PkgPath != "" {
				continue // unexported
			}
			if d := eqv(a.Field(i), b.Field(i), path+"."+a.Type().Field(i).Name); d != "" {
				return d
			}
		}
		return ""
	case reflect.Bool:
		if a.Bool() != b.Bool() {
			return path + ": bool"
		}
	case reflect.Int, reflect.Int8, reflect.Int16, reflect.Int32, reflect.Int64:
		if a.Int() != b.Int() {
			return fmt.Sprintf("%s: %d vs %d", path, a.Int(), b.Int())
		}
	case reflect.Uint, reflect.Uint8, reflect.Uint16, reflect.Uint32, reflect.Uint64:
		if a.Uint() != b.Uint() {
			return fmt.Sprintf("%s: %d vs %d", path, a.Uint(), b.Uint())
		}
	case reflect.String:
		if a.String() != b.String() {
			return path + ": string"
		}
	default:
		if !reflect.DeepEqual(a.Interface(), b.Interface()) {
			return path + ": " + a.Kind().String()
		}
	}
	return ""
}

func addrable(v interface{}) reflect.Value {
	rv := reflect.ValueOf(v)
	if rv.Kind() == reflect.Ptr {
		return rv
	}
	p := reflect.New(rv.Type())
	p.Elem().Set(rv)
	return p
}

// c15CheckValue runs the single-value oracle. enc is the encoding (returned for reuse).
func c15CheckValue(m MessagePayload) ([]byte, *c15Violation) {
	name := NameForMessageType(m.Type())
	b, err := c15Encode(m)
	if err != nil {
		return nil, &c15Violation{"C15/encode-error/" + name, fmt.Sprintf("Serialize(%s) failed: %v", name, err)}
	}
	m2, left, derr, pan := c15Decode(b)
	if pan != "" {
		return b, &c15Violation{"C15/roundtrip-panic/" + name, "decoding a valid encoding panicked: " + pan}
	}
	if derr != nil {
		return b, &c15Violation{"C15/roundtrip-error/" + name, fmt.Sprintf("decode(encode(m)) failed: %v", derr)}
	}
	if left != 0 {
		return b, &c15Violation{"C15/consumption/" + name, fmt.Sprintf("decode left %d of %d bytes unread", left, len(b))}
	}
	if m2.Payload.Type() != m.Type() {
		return b, &c15Violation{"C15/type/" + name, "decoded payload has another type"}
	}
	if d := eqv(addrable(m), addrable(m2.Payload), name); d != "" {
		return b, &c15Violation{"C15/roundtrip-value/" + name, "decode(encode(m)) differs from m at " + d}
	}
	b2, err := c15Encode(m2.Payload)
	if err != nil || !bytes.Equal(b, b2) {
		return b, &c15Violation{"C15/reencode/" + name, fmt.Sprintf("encode(decode(encode(m))) != encode(m) (err=%v)", err)}
	}
	// framing: trailing bytes must stay unread
	tail := []byte{0x2a, 0x00, 0xff, 0x01, 0x30}
	_, left, derr, pan = c15Decode(append(append([]byte{}, b...), tail...))
	if pan != "" || derr != nil || left != len(tail) {
		return b, &c15Violation{"C15/framing/" + name, fmt.Sprintf("with %d trailing bytes: err=%v panic=%q unread=%d", len(tail), derr, pan, left)}
	}
	// every strict prefix must fail with an error
	for k := 0; k < len(b); k++ {
		if len(b) > 1200 && k > 300 && k < len(b)-300 && k%11 != 0 {
			continue // long encodings: all prefixes near both ends, every 11th in between
		}
		pm, _, perr, pan := c15Decode(b[:k])
		if pan != "" {
			return b, &c15Violation{"C15/prefix-panic/" + name, fmt.Sprintf("prefix %d/%d panicked: %s", k, len(b), pan)}
		}
		if perr == nil {
			what := fmt.Sprintf("strict prefix %d of %d bytes decoded without error", k, len(b))
			if pm != nil && pm.Payload != nil {
				what += " as " + NameForMessageType(pm.Payload.Type())
			}
			return b, &c15Violation{"C15/prefix-accepted/" + name, what}
		}
	}
	return b, nil
}

func c15Types() []uint64 {
	var ts []uint64
	for t := range MessageTypeNames {
		ts = append(ts, t)
	}
	sort.Slice(ts, func(i, j int) bool { return ts[i] < ts[j] })
	return ts
}

func init() {
	for _, t := range c15Types() {
		if p := PayloadForType(t); p != nil {
			gob.Register(p)
		}
	}
}

// C15Replay is the replay form: gob of the payload values (faithful even if the encoder is broken).
type C15Replay struct {
	Gob []string `json:"gob_base64"`
	Hex []string `json:"encoding_hex_informational"`
}

func c15ToReplay(ms []MessagePayload) *C15Replay {
	r := &C15Replay{}
	for _, m := range ms {
		var buf bytes.Buffer
		if err := gob.NewEncoder(&buf).Encode(&m); err == nil {
			r.Gob = append(r.Gob, base64.StdEncoding.EncodeToString(buf.Bytes()))
		}
		if b, err := c15Encode(m); err == nil {
			r.Hex = append(r.Hex, hex.EncodeToString(b))
		}
	}
	return r
}

func c15FromReplay(r *C15Replay) ([]MessagePayload, error) {
	var out []MessagePayload
	for _, g := range r.Gob {
		b, err := base64.StdEncoding.DecodeString(g)
		if err != nil {
			return nil, err
		}
		var m MessagePayload
		if err := gob.NewDecoder(bytes.NewReader(b)).Decode(&m); err != nil {
			return nil, err
		}
		out = append(out, m)
	}
	return out, nil
}

func c15CheckStream(ms []MessagePayload) *c15Violation {
	var all []byte
	for _, m := range ms {
		b, err := c15Encode(m)
		if err != nil {
			return &c15Violation{"C15/encode-error/" + NameForMessageType(m.Type()), err.Error()}
		}
		all = append(all, b...)
	}
	// the same bytes through the kinds of reader a connection can be: a reader with ReadByte, a plain
	// reader that hands out everything it has, one byte at a time, and in uneven chunks
	for _, kind := range []string{"bytes.Reader", "plain", "one-byte", "chunks"} {
		base := bytes.NewReader(all)
		var r io.Reader = base
		switch kind {
		case "plain":
			r = plainReader{base}
		case "one-byte":
			r = &chunkReader{r: base, sizes: []int{1}}
		case "chunks":
			r = &chunkReader{r: base, sizes: []int{7, 1, 64, 3, 500, 2}}
		}
		for i, m := range ms {
			got := &Message{}
			var err error
			func() {
				defer func() {
					if rec := recover(); rec != nil {
						err = fmt.Errorf("panic: %v", rec)
					}
				}()
				err = got.Deserialize(r)
			}()
			if err != nil {
				return &c15Violation{"C15/stream/decode", fmt.Sprintf("message %d of %d in a concatenation failed (%s reader): %v", i, len(ms), kind, err)}
			}
			if got.Payload.Type() != m.Type() {
				return &c15Violation{"C15/stream/sequence", fmt.Sprintf("message %d decoded as %s, sent %s (%s reader)", i, got.Name(), NameForMessageType(m.Type()), kind)}
			}
			if d := eqv(addrable(m), addrable(got.Payload), "m"); d != "" {
				return &c15Violation{"C15/stream/value", fmt.Sprintf("message %d differs at %s (%s reader)", i, d, kind)}
			}
		}
		if base.Len() != 0 {
			return &c15Violation{"C15/stream/eof", fmt.Sprintf("%d bytes left after the last message (%s reader)", base.Len(), kind)}
		}
		extra := &Message{}
		if err := extra.Deserialize(r); err == nil {
			return &c15Violation{"C15/stream/eof", fmt.Sprintf("decoding past the end succeeded (%s reader)", kind)}
		}
	}
	return nil
}

// plainReader hides every method of the underlying reader except Read.
type plainReader struct{ r io.Reader }

func (p plainReader) Read(b []byte) (int, error) { return p.r.Read(b) }

// chunkReader returns at most sizes[k] bytes on its k-th call (cyclic).
type chunkReader struct {
	r     io.Reader
	sizes []int
	k     int
}

func (c *chunkReader) Read(b []byte) (int, error) {
	n := c.sizes[c.k%len(c.sizes)]
	c.k++
	if n > len(b) {
		n = len(b)
	}
	return c.r.Read(b[:n])
}

func c15RunReplay(t *testing.T, rep *verifkit.Report, path string) {
	var r C15Replay
	if _, _, err := verifkit.LoadReplay(path, &r); err != nil {
		t.Fatalf("replay %s: %v", path, err)
	}
	ms, err := c15FromReplay(&r)
	if err != nil {
		t.Fatalf("replay %s: %v", path, err)
	}
	rep.Case(verifkit.Hash(r.Gob), true, "replay")
	for _, m := range ms {
		if _, v := c15CheckValue(m); v != nil {
			rep.AddViolation(v.key, v.what, &r)
			t.Errorf("replay %s: %s: %s", path, v.key, v.what)
			return
		}
	}
	if v := c15CheckStream(ms); v != nil {
		rep.AddViolation(v.key, v.what, &r)
		t.Errorf("replay %s: %s: %s", path, v.key, v.what)
	}
}

func TestC15Table(t *testing.T) {
	rep := verifkit.NewReport("C15", "TestC15Table", "type table: every code in the name table has a payload of that type, a generator, a unique non-empty name; every other code in 0..2000 and 200 random 64-bit codes map to nil; non-trivial = code present in the table")
	defer rep.Finish(t)
	names := map[string]uint64{}
	for _, tc := range c15Types() {
		p := PayloadForType(tc)
		rep.Case(tc, true, "known-code")
		if p == nil {
			rep.AddViolation("C15/table/no-payload", fmt.Sprintf("type %d (%s) has no payload", tc, MessageTypeNames[tc]), tc)
			t.Errorf("type %d has no payload", tc)
			continue
		}
		if p.Type() != tc {
			rep.AddViolation("C15/table/type-mismatch", fmt.Sprintf("PayloadForType(%d).Type() == %d", tc, p.Type()), tc)
			t.Errorf("type mismatch %d", tc)
		}
		n := NameForMessageType(tc)
		if n == "" {
			rep.AddViolation("C15/table/name", fmt.Sprintf("type %d has an empty name", tc), tc)
			t.Errorf("empty name %d", tc)
		}
		if o, dup := names[n]; dup {
			rep.AddViolation("C15/table/name", fmt.Sprintf("types %d and %d share the name %q", o, tc, n), tc)
			t.Errorf("dup name %s", n)
		}
		names[n] = tc
		if VerifGenerators[tc] == nil {
			rep.AddViolation("C15/table/no-generator", fmt.Sprintf("message type %d (%s) has no generator in the harness: extend /verif/harness/pkg/client/gen.go", tc, n), tc)
			t.Errorf("no generator for %d", tc)
		}
	}
	for c := uint64(0); c < 2000; c++ {
		if _, ok := MessageTypeNames[c]; ok {
			continue
		}
		rep.Case(c, false, "unknown-code")
		if PayloadForType(c) != nil {
			rep.AddViolation("C15/table/unknown-code", fmt.Sprintf("code %d has a payload but no name", c), c)
			t.Errorf("code %d", c)
		}
	}
	rep.Sample(map[string]interface{}{"codes": c15Types()})
}

func TestC15RoundTrip(t *testing.T) {
	rep := verifkit.NewReport("C15", "TestC15RoundTrip", c15Rule)
	defer rep.Finish(t)
	if f := verifkit.ReplayFile("TestC15RoundTrip"); f != "" {
		c15RunReplay(t, rep, f)
		return
	}
	for _, f := range verifkit.RegressionFiles("TestC15RoundTrip") {
		c15RunReplay(t, rep, f)
	}
	types := c15Types()
	rapid.Check(t, func(rt *rapid.T) {
		tc := rapid.SampledFrom(types).Draw(rt, "type")
		gen := VerifGenerators[tc]
		if gen == nil {
			rt.Skip("no generator (reported by TestC15Table)")
		}
		m := gen(rt)
		b, v := c15CheckValue(m)
		name := NameForMessageType(tc)
		rep.Case(verifkit.HashBytes(b), len(b) > 12, "type:"+name)
		if len(b) > 12 && rep.WantSample() {
			rep.Sample(map[string]interface{}{"type": name, "encoding_hex": hex.EncodeToString(b)})
		}
		if v != nil {
			rep.Fail(v.key, v.what, c15ToReplay([]MessagePayload{m}))
			rt.Fatalf("%s: %s", v.key, v.what)
		}
	})
}

func TestC15Stream(t *testing.T) {
	rep := verifkit.NewReport("C15", "TestC15Stream", "concatenations of 2..6 generated messages decoded from one stream through four kinds of reader (with ReadByte, plain, one byte at a time, uneven chunks); non-trivial = at least two different types and total length > 40; distinct by stream hash")
	defer rep.Finish(t)
	if f := verifkit.ReplayFile("TestC15Stream"); f != "" {
		c15RunReplay(t, rep, f)
		return
	}
	types := c15Types()
	rapid.Check(t, func(rt *rapid.T) {
		n := rapid.IntRange(2, 6).Draw(rt, "n")
		var ms []MessagePayload
		kinds := map[uint64]bool{}
		for i := 0; i < n; i++ {
			tc := rapid.SampledFrom(types).Draw(rt, "type")
			if VerifGenerators[tc] == nil {
				rt.Skip("no generator")
			}
			ms = append(ms, VerifGenerators[tc](rt))
			kinds[tc] = true
		}
		v := c15CheckStream(ms)
		var total int
		var all []byte
		for _, m := range ms {
			b, _ := c15Encode(m)
			total += len(b)
			all = append(all, b...)
		}
		rep.Case(verifkit.HashBytes(all), len(kinds) >= 2 && total > 40, fmt.Sprintf("len:%d", n))
		if rep.WantSample() && total > 40 && total < 400 {
			rep.Sample(map[string]interface{}{"n": n, "stream_hex": hex.EncodeToString(all)})
		}
		if v != nil {
			rep.Fail(v.key, v.what, c15ToReplay(ms))
			rt.Fatalf("%s: %s", v.key, v.what)
		}
	})
}
